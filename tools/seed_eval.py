#!/usr/bin/env python3
"""Confirm a seeded change and run our checks against it.

  tools/seed_eval.py <PID> <dir with patch.diff, demo.py, meta.json> [--name NAME] [--checks C01,C03] [--tier quick|thorough] [--no-tests] [--keep]

Steps (all in a scratch copy of /repo under /var/tmp, removed afterwards):
  1. demo.py on the clean copy must exit 0; 2. apply patch.diff; demo.py must exit non-zero;
  3. the repository's test suite must still pass with the patch (pytest -n 8);
  4. run the quick (then, if silent, thorough) command of the listed checks (default: the property's own check) with
     VERIF_REPO pointing at the patched copy; record which report a VIOLATION.
With --keep the confirmed seed is stored as /verif/seeded/<NAME>/{patch.diff, demo.py, meta.json}.
"""
import argparse
import json
import os
import shutil
import subprocess
import sys
import tempfile
import time

ROOT = os.path.dirname(os.path.dirname(os.path.abspath(__file__)))
PY = "/venv/bin/python"


def sh(cmd, cwd=None, env=None, timeout=3600):
    r = subprocess.run(cmd, cwd=cwd, env=env, capture_output=True, text=True, timeout=timeout)
    return r.returncode, r.stdout, r.stderr


def main():
    ap = argparse.ArgumentParser()
    ap.add_argument("pid")
    ap.add_argument("src")
    ap.add_argument("--name")
    ap.add_argument("--checks")
    ap.add_argument("--tier", default="quick")
    ap.add_argument("--no-tests", action="store_true")
    ap.add_argument("--keep", action="store_true")
    ap.add_argument("--escalate", action="store_true", help="run thorough if quick is silent")
    a = ap.parse_args()
    name = a.name or a.pid
    work = tempfile.mkdtemp(prefix="verif-seed-", dir="/var/tmp")
    report = {"property": a.pid, "name": name, "ran": []}
    try:
        copy = os.path.join(work, "repo")
        shutil.copytree("/repo", copy, ignore=shutil.ignore_patterns(".git", "__pycache__", "*.pyc", "_seed"))
        # the repository's plotting tests leave ~90 MB per run in the temp dir: keep it inside the scratch directory
        os.makedirs(os.path.join(work, "tmp"), exist_ok=True)
        env = dict(os.environ, PYTHONPATH=os.path.join(copy, "perception_eval"), OPENBLAS_NUM_THREADS="1", OMP_NUM_THREADS="1", TMPDIR=os.path.join(work, "tmp"))
        demo = os.path.join(a.src, "demo.py")
        patch = os.path.join(a.src, "patch.diff")
        rc0, out0, err0 = sh([PY, demo], cwd=copy, env=env, timeout=900)
        report["demo_clean_exit"] = rc0
        rc, out, err = sh(["patch", "-p1", "-i", patch], cwd=copy)
        if rc != 0:
            print("PATCH FAILED", out, err)
            return 2
        rc1, out1, err1 = sh([PY, demo], cwd=copy, env=env, timeout=900)
        report["demo_patched_exit"] = rc1
        report["demo_patched_tail"] = (out1 + err1)[-400:]
        print(f"demo: clean exit {rc0}, patched exit {rc1}")
        if rc0 != 0 or rc1 == 0:
            print("DEMO DOES NOT DISCRIMINATE", out0[-300:], err0[-300:], out1[-300:], err1[-300:])
            report["confirmed"] = False
        if not a.no_tests:
            t = time.time()
            rc, out, err = sh([PY, "-m", "pytest", "-q", "-p", "no:cacheprovider", "-n", "8", "--timeout=900", "perception_eval/test"], cwd=copy, env=env, timeout=3000)
            line = [l for l in out.splitlines() if " passed" in l or " failed" in l or "error" in l.lower()][-1:] or [out[-200:]]
            report["tests"] = line[0].strip()
            report["tests_exit"] = rc
            print(f"tests: exit {rc} {line[0].strip()} ({time.time() - t:.0f}s)")
        checks = (a.checks.split(",") if a.checks else [a.pid])
        detected = {}
        for c in checks:
            tiers = [a.tier] + (["thorough"] if a.escalate and a.tier == "quick" else [])
            for tier in tiers:
                env2 = dict(os.environ, VERIF_REPO=copy, VERIF_REPLAY_DIR=os.path.join(work, "replay"), VERIF_EVIDENCE_DIR=os.path.join(work, "ev"))
                t = time.time()
                rc, out, err = sh([PY, os.path.join(ROOT, "run.py"), c, "--tier", tier], cwd=ROOT, env=env2, timeout=7200)
                sigs = sorted({l.strip()[len("signature: "):] for l in out.splitlines() if l.strip().startswith("signature:")})
                verdict = "VIOLATION" if rc == 1 else ("silent" if rc == 0 else f"error{rc}")
                print(f"check {c} {tier}: {verdict} {sigs[:4]} ({time.time() - t:.0f}s)")
                report["ran"].append({"check": c, "tier": tier, "verdict": verdict, "signatures": sigs[:6], "seed": os.environ.get("VERIF_SEED", "1")})
                if rc == 2:
                    print(out[-500:], err[-800:])
                if rc == 1:
                    detected[c] = tier
                    break
        report["detected_by"] = detected
        if a.keep:
            dst = os.path.join(ROOT, "seeded", name)
            os.makedirs(dst, exist_ok=True)
            shutil.copy(patch, os.path.join(dst, "patch.diff"))
            shutil.copy(demo, os.path.join(dst, "demo.py"))
            meta = {}
            mp = os.path.join(a.src, "meta.json")
            if os.path.exists(mp):
                try:
                    meta = json.load(open(mp))
                except Exception:  # noqa: BLE001
                    meta = {"raw": open(mp).read()}
            # a re-evaluation after strengthening keeps what the earlier confirmation recorded (test-suite result,
            # verdicts of the first run) instead of overwriting it
            old_mp = os.path.join(dst, "meta.json")
            if os.path.exists(old_mp):
                try:
                    old = json.load(open(old_mp)).get("confirmed_by_us", {})
                except Exception:  # noqa: BLE001
                    old = {}
                if "tests" in old and "tests" not in report:
                    report["tests"], report["tests_exit"] = old["tests"], old.get("tests_exit")
                earlier = [dict(r, note=r.get("note", "earlier run (before the strengthening this seed triggered)")) for r in old.get("ran", [])]
                report["ran"] = earlier + report["ran"]
            meta.update({"property": a.pid, "confirmed_by_us": report})
            json.dump(meta, open(os.path.join(dst, "meta.json"), "w"), indent=1)
        print(json.dumps(report, indent=1))
    finally:
        shutil.rmtree(work, ignore_errors=True)
    return 0


if __name__ == "__main__":
    sys.exit(main())
