#!/usr/bin/env python3
"""Writes the prompts handed to the fresh seeding sub-agents (one per property) and prepares their scratch worktrees.

  tools/seed_prompts.py <round number> [--ids C01,C02] [--root /tmp/seed]

A prompt contains ONLY the property record (verbatim from properties.jsonl), the task, the list of changes already used
for that property in earlier rounds (summaries from seeded/*/meta.json, so that the agent picks a different site and
mechanism) and a round-specific steer.  Nothing else from /verif is given to the agent.  The worktree
<root>/<id> is a detached git worktree of /repo (removed again with `git -C /repo worktree remove --force`).
"""
import argparse
import json
import os
import subprocess

ROOT = os.path.dirname(os.path.dirname(os.path.abspath(__file__)))

STEER = {
    5: """Earlier rounds already covered: wrong-variable / dropped-condition slips at the anchored site; memoisation caches that go
stale; zero-is-falsy slips; `is` vs `==`; dataclass / __eq__ / __hash__ changes; unstable sorting; in-place mutation and aliasing
of arguments (copy vs deepcopy); int-vs-float dtype slips; duck typing instead of isinstance; shared low-level transform helpers;
module-level mutable constants; behaviour that scales with the magnitude of coordinates.
This time pick ONE of the following families (whichever fits this property best) and a code site none of the earlier changes
touched:
 (a) PARAMETER PLUMBING: a rarely used option or configuration value (for example target_uuids, max_matchable_radii,
     ignore_attributes, confidence thresholds, min_point_numbers, uuid_matching_first, merge_similar_labels, count_label_number,
     label_prefix, matching_label_policy / allow_matching_unknown, transforms given vs None, per-label threshold lists, the 2D vs 3D
     variants of a task, FP-validation tasks, the `inside=` / `scale=` style keyword arguments) that is silently no longer
     forwarded, is forwarded to the wrong side (estimate vs ground truth), is indexed with the wrong label position, or whose
     default changed — so that only configurations using that option are affected;
 (b) ITERATION SLIPS: zip() truncating the longer of two lists, an off-by-one in a frame / label / threshold index, a dict
     comprehension whose keys collide, `any` vs `all`, an early `break` / `continue` / `return` on a rare branch, a loop variable
     reused after the loop, iteration over a list that is modified in the loop;
 (c) NUMERIC CONVENTIONS: degrees vs radians, angle wrap-around at +-pi, abs() / sign lost, squared vs root, mean vs sum,
     float32 round trip, normalising (or forgetting to normalise) a quaternion or a vector, integer pixel rounding, unit of a
     timestamp (micro-seconds vs seconds), accumulating a running mean incorrectly over frames;
 (d) ORDER OF OPERATIONS between layers: filtering before / after matching, sorting before / after truncation, converting frames
     before / after interpolation, label conversion before / after filtering — two steps that commute for ordinary inputs but
     not for the specific ones you identify.
The change may be in the anchored files or anywhere else in the package, but it must NOT repeat a site or mechanism listed above.
Think about which OBSERVABLE of the property (listed under "observe_at") your change corrupts and make sure the demo shows it
through that public observable.""",
    6: """Earlier rounds already covered: wrong-variable / dropped-condition slips at the anchored site; memoisation caches that go
stale; zero-is-falsy slips; `is` vs `==`; dataclass / __eq__ / __hash__ changes; unstable sorting; in-place mutation and aliasing
(copy vs deepcopy); int-vs-float dtype slips; duck typing; shared transform helpers; module-level mutable constants; behaviour that
scales with coordinate magnitude; options not forwarded / indexed by the wrong label position; zip / dict-order / loop-variable /
early-break iteration slips; angle wrap-around and quaternion-order slips; precomputing before sorting.
This time work from the STATEMENT rather than from the code: split the statement into its individual clauses and pick the clause
(or the part of the quantifier: a task variant, a frame, a label family, an alternative entry point, the scene level vs the frame
level, the 2D vs the 3D variant, an optional argument) that you judge LEAST likely to be exercised by someone who tests the
property's main clause. Then break ONLY that clause, with one of these mechanisms:
 (a) ALTERNATIVE ENTRY POINTS that should agree but no longer do: a classmethod / from_* constructor vs __init__, a keyword
     argument vs its positional form, a convenience wrapper vs the function it wraps, the 2D vs the 3D branch of one function,
     the scene-level vs the frame-level path, a str vs enum argument, a list vs tuple vs numpy-array argument;
 (b) STATE CARRIED BETWEEN CALLS: an accumulator that is not reset, a class attribute used where an instance attribute is
     meant, a mutable default argument, a generator / iterator consumed twice, a result list extended instead of replaced;
 (c) ERROR HANDLING: a try/except that became broader and now swallows a legitimate error (or converts it into a default
     value), a validation that moved after its first use, an `assert` replaced by a silent clamp, raising on a legitimate empty
     input, returning None / NaN / inf where the statement promises a value (or the other way round);
 (d) TWO COOPERATING SITES that are each plausible alone: e.g. a helper that starts returning a slightly different type /
     unit / ordering together with a caller that is not adapted, so that only one path through the caller is affected.
The change may be anywhere in the package but must NOT repeat a site or mechanism listed above.
Make sure the demo shows the violation through one of the public observables listed under "observe_at".""",
    7: """Earlier rounds already covered: wrong-variable / dropped-condition slips at the anchored site; stale caches; zero-is-falsy;
`is` vs `==`; __eq__ / __hash__ / dataclass changes; unstable sorting; in-place mutation, aliasing, copy vs deepcopy, mutable
default arguments, class-level attributes; dtype slips; duck typing; shared transform helpers; module-level constants; options not
forwarded / wrong label index; zip / dict-order / loop-variable / early-break slips; angle wrap-around, quaternion order;
precomputing before sorting; alternative entry points disagreeing; broadened try/except; NaN swallowed by a clamp.
This time play a developer doing one of these ordinary maintenance jobs, and let the job go subtly wrong for a specific class of
inputs:
 (a) VECTORISING / SPEEDING UP a Python loop with numpy or pandas (broadcasting along the wrong axis, `np.argmin` / `np.argsort`
     over a flattened array, boolean masks built on a different index than the one they filter, `np.unique` / `set` reordering,
     `np.where` returning indices of the wrong array, a bounding-circle / axis-aligned pre-filter that is too tight for some
     shapes, `bisect` on an unsorted list, integer array arithmetic truncating);
 (b) MODERNISING library calls: replacing one third-party call by a "newer equivalent" that differs in a corner case
     (pyquaternion vs a hand-written formula, `Quaternion.yaw_pitch_roll` vs `rotation_matrix`, shapely `contains` vs `covers` vs
     `intersects`, `polygon.exterior.coords` including the closing point, `np.linalg.norm` axis default, `math.hypot` vs norm,
     `round` vs `np.round` vs `int()`, pandas `append`/`concat`/`groupby` ordering, `dict.get` default evaluated eagerly);
 (c) INPUT-FORMAT TOLERANCE: accepting tuple / list / ndarray / float32 / negative zero / empty arrays of shape (0,) vs (0, 3)
     / Optional fields that are None for some sources but not others, and treating one of these forms slightly differently;
 (d) TIDYING API SURFACE: reordering or renaming parameters of an internal helper while one call site still passes them
     positionally, turning a positional argument into keyword-only with a default, merging two near-identical helpers into one
     whose behaviour matches only one of them.
The change may be anywhere in the package but must NOT repeat a site or mechanism listed above.
Make sure the demo shows the violation through one of the public observables listed under "observe_at".""",
    8: """Earlier rounds already covered: wrong-variable / dropped-condition slips; stale caches; zero-is-falsy; `is` vs `==`;
__eq__ / __hash__ / dataclass changes; unstable sorting; aliasing, copy vs deepcopy, mutable defaults, class-level attributes;
dtype slips; duck typing; shared transform helpers; options not forwarded / wrong label index; zip / dict-order / loop-variable
slips; angle wrap-around, quaternion order; alternative entry points disagreeing; broadened try/except; vectorisation slips;
"modernised" library calls; merged helpers; bounding-circle pre-filters; bisect without guard.
This time play a developer who FIXES A (fictional but plausible) BUG REPORT or ADDS A SMALL FEATURE, and whose patch
over-corrects — it does what the ticket asks for the reported case but silently changes behaviour for a neighbouring class of
inputs. Write the ticket in one sentence in your summary. Examples of such tickets:
 - "objects exactly on the range boundary are dropped" / "objects slightly outside should be kept" (tolerance added on one side
   only, or to the wrong quantity);
 - "support polygon-shaped / zero-height / negative-size / NaN-containing objects" (new branch taken by ordinary boxes in some
   configuration);
 - "estimates with confidence 0 (or exactly the threshold) must not be discarded";
 - "frames without estimates / without ground truth crash or give NaN" (early return that also fires for a non-empty case);
 - "traffic lights seen by two cameras are counted twice" (de-duplication that also merges distinct objects);
 - "timestamps in nanoseconds should be accepted", "unknown labels should never count as FP", "ground truths without point
   cloud (num_points = 0 / None) must be kept", "labels given in upper case in the scenario file", "allow a per-label list where
   only a scalar was accepted" ...
The patch must look like a reasonable fix for the ticket (a reviewer skimming it would approve), keep the existing tests green,
and break the property for inputs the ticket was NOT about. It must NOT repeat a site or mechanism listed above.
Make sure the demo shows the violation through one of the public observables listed under "observe_at", on an input that has
nothing to do with the ticket's special case.""",
    9: """Earlier rounds already covered a wide range of mechanisms (wrong variables, caches, aliasing, dtype, iteration and
vectorisation slips, angle / quaternion conventions, entry points disagreeing, error handling, over-correcting fixes,
de-duplication keyed on uuid or pose, prefix-compatible frame names).
This time choose the INPUT CLASS first and the mechanism second. Pick a class of valid inputs that a careful tester might
still not generate, and introduce a plausible slip (any mechanism not listed as already used) that manifests ONLY for that
class. Candidate classes — choose one that fits this property, or a comparable one:
 - configuration extremes: `target_labels` None / empty (= all labels), a single target label, `merge_similar_labels=True`,
   every optional parameter omitted, per-label lists given as scalars, thresholds of exactly 1.0 for IoU or very large
   distances, `max_matchable_radii` smaller than every distance, several threshold rows per matching mode;
 - object extremes: an object centred exactly on the ego (distance 0), yaw exactly 0 / +-pi / +-pi/2, a quaternion with
   negative w, very small (5 cm) or very large (30 m) boxes, heights of 0.1 m, confidence exactly 0.0 or 1.0, identical
   objects twice in a list, z far from 0, velocities None vs given, `pointcloud_num` 0 vs None, uuids containing unusual
   characters;
 - population extremes: empty estimate list with non-empty ground truth and vice versa, exactly one object, hundreds of
   objects, all estimates `unknown`-labelled, all ground truths `false_positive`, every estimate unmatched, more labels in
   the data than in the targets, frames of a sequence that are empty in the middle;
 - numeric extremes: coordinates around 1e5 m, timestamps near 0 or near 2^53, ROIs at pixel 0 or of size 1, exactly
   tied scores, values exactly on a threshold (then make the slip larger than a boundary flip: the two behaviours must
   differ by far more than rounding).
Say in `needs` exactly which class the bug needs. The change must keep the existing tests green and look like an ordinary
edit (refactoring, clean-up, micro-optimisation, defensive check). It must NOT repeat a site or mechanism listed above.
Make sure the demo shows the violation through one of the public observables listed under "observe_at".""",
    10: """Earlier rounds already covered a wide range of mechanisms (wrong variables, caches, aliasing, dtype, iteration and
vectorisation slips, angle / quaternion conventions, entry points disagreeing, error handling, over-correcting fixes,
de-duplication, input-class-specific shortcuts, defaults dropped by setdefault, regex prefix matches).
This time play a developer who EXTENDS the library and, while doing so, shifts existing behaviour:
 (a) a NEW ENUM MEMBER (a label such as `trailer` / `cone`, a traffic-light state, a FrameID for a new sensor, a MatchingMode,
     a Visibility level, an EvaluationTask) or a new entry in a lookup table, inserted so that positions / indices / prefixes /
     `in (...)` tuples / "first match wins" loops that existing code relies on now resolve differently for some EXISTING member;
 (b) a NEW OPTIONAL PARAMETER or configuration key whose default is not behaviour-preserving on every path, or which is threaded
     through one call chain but not its sibling (frame level vs scene level, 2D vs 3D, estimates vs ground truths);
 (c) a SUBCLASS / OVERRIDE / MIXIN (e.g. a specialised object, matching or metric class; a `__post_init__`, `__getattr__`,
     `@property` replacing an attribute) that changes what the base-class code sees for existing objects;
 (d) SUPPORT FOR A NEW SHAPE / UNIT / CONVENTION (polygon footprints, cylinders, degrees in configs, millisecond timestamps,
     left-handed frames) implemented by normalising inputs early — and the normalisation also touches inputs of the old kind.
The new feature itself must work (show it in one line of the demo), the existing tests must stay green, and the property must
break for EXISTING kinds of input that have nothing to do with the new feature. It must NOT repeat a site or mechanism listed
above. Make sure the demo shows the violation through one of the public observables listed under "observe_at".""",
    11: """Earlier rounds already covered a wide range of mechanisms (see the list above and: new enum members / parameters /
overrides, over-correcting fixes, input-class shortcuts, falsy zeros, `or DEFAULT`, positional-argument shifts).
This time play a developer doing a CLEAN-UP: removing what looks like dead code, a redundant check, a duplicated computation, a
"legacy" branch, an unnecessary copy / sort / normalisation / type conversion, an `else` that "can never happen", a guard that
"is already enforced upstream", a second pass that "does the same as the first" — where the removed piece was in fact needed for a
specific class of valid inputs or call sequences. Also allowed: inlining a helper into its callers with a slight change in one of
them, collapsing two branches that differ in a detail, replacing an explicit loop by a comprehension / builtin that drops a side
condition, simplifying a boolean expression incorrectly (De Morgan, precedence, `a and b or c`).
The clean-up must look like an improvement a reviewer would approve, keep the existing tests green, and break the property only
for the specific class the removed piece served. It must NOT repeat a site or mechanism listed above.
Make sure the demo shows the violation through one of the public observables listed under "observe_at".""",
    12: """Earlier rounds already covered a wide range of mechanisms (see the list above and: clean-ups removing a needed branch /
copy / guard, collapsed branches, loops rewritten with numpy or reduce, values "built once" in __init__).
This time play a developer MODERNISING the code's data structures and idioms: a list replaced by a set / dict / tuple / numpy
array / generator (losing duplicates, order, identity, or being consumed twice); a dict keyed by something that is not unique
(label, uuid, timestamp, name) or whose keys compare equal across types; `itertools.groupby` without the sort it needs;
`max(..., default=)` / `min` / `sum` / `any` / `all` whose empty or tie case differs from the loop it replaces; `sorted(key=...)`
or `bisect` replacing a scan with different tie / boundary behaviour; `zip` / `enumerate` / slicing replacing index arithmetic;
`dataclass` / `NamedTuple` / `Enum` conversions; string formatting / rounding used as a key; `math.isclose` / `np.isclose` /
`round` replacing an exact comparison; `np.where` / boolean masks / `np.unique` (which sorts) replacing explicit filtering.
The modernisation must look like an improvement a reviewer would approve, keep the existing tests green, and break the property
only for a specific class of valid inputs (duplicates, ties, empty groups, equal keys, unsorted arrival order, ...). It must NOT
repeat a site or mechanism listed above.
Make sure the demo shows the violation through one of the public observables listed under "observe_at".""",
}

TEMPLATE = """You are helping to measure how sensitive a verification effort is. You will SEED A BUG.

Work ONLY inside {wt} — a git worktree (detached HEAD) of a Python library that evaluates autonomous-driving perception
outputs (package sources under {wt}/perception_eval/perception_eval, its tests under {wt}/perception_eval/test, docs under
{wt}/docs). Do NOT read or touch /verif, /repo, or any other directory under {root}; do not use the network.

The property you must break (one record of a property list; "anchors" point at the code that is meant to make it hold):

{record}

YOUR TASK
Make a small, realistic source change (library code only, never the tests) that makes this property FALSE, such that
 (1) the package still imports and the complete existing test suite still passes:
       cd {wt} && PYTHONPATH={wt}/perception_eval /venv/bin/python -m pytest -q -p no:cacheprovider -n 8 --timeout=900 perception_eval/test
     (expected: 110 passed, 3 skipped — same as without your change);
 (2) the violation needs something SPECIFIC to manifest — a particular kind of input (negative yaw, map frame, empty list, ties,
     a label outside the targets, an object exactly on an axis ...), a multi-step sequence of API calls, a particular
     configuration combination, or two cooperating code sites that each look fine alone — NOT something every ordinary use would
     expose immediately, and not something the existing tests exercise;
 (3) it is the kind of bug a developer could plausibly introduce by a refactoring, an "optimisation", a copy-paste, a wrong variable,
     a dropped condition on a rare branch, caching / in-place mutation, a sign or frame convention slip — NOT sabotage such as
     `if x == 1234:` or random behaviour. Keep it to a few lines (one or two sites);
 (4) the property as WRITTEN must really be false with your change: a reader of the statement, shown your demo's observed vs expected
     values, must agree that the statement is violated (not merely that behaviour changed in a way the statement does not mention).
Read the anchored code and the existing tests first so that you know what the tests cover and what they do not.

ALREADY USED in earlier seeding rounds for this property — choose a DIFFERENT code site and a DIFFERENT mechanism from all of these:
{used}
{steer}

DELIVERABLES (create the directory {wt}/_seed):
 * {wt}/_seed/patch.diff  — output of `git -C {wt} diff` for your change (must apply cleanly with `git apply` on a clean checkout of
   the same commit; do not leave the change only in untracked files).
 * {wt}/_seed/demo.py     — a small self-contained program using the library's public API that demonstrates the violation:
   it must exit 0 (printing OK) on the ORIGINAL code and exit 1 (printing what property was violated and the observed vs expected
   values) WITH your change. Run it as:  PYTHONPATH={wt}/perception_eval /venv/bin/python {wt}/_seed/demo.py
   (Constructing PerceptionEvaluationConfig creates result directories: use tempfile.mkdtemp() and remove it. The bundled dataset is
   {wt}/perception_eval/test/sample_data; tests under perception_eval/test show how to build objects by hand.)
 * {wt}/_seed/meta.json   — {{"property": "{pid}", "summary": "<one line: what the change does>", "needs": "<what specific input /
   sequence / configuration is needed for it to manifest>", "files": ["<changed files>"], "tests": "<test suite result line with the change>"}}
VERIFY before you finish: (a) revert with `git apply -R _seed/patch.diff` (do NOT use `git stash`: the stash is shared between worktrees and other agents use it) -> demo exits 0; re-apply with `git apply _seed/patch.diff` -> demo exits 1;
(b) the full test suite passes with the change applied. Leave the change APPLIED in the worktree when you finish.
Your final message: 5-10 lines — the change, why the existing tests miss it, what is needed to trigger it, and the outputs of (a) and (b).
"""


def main():
    ap = argparse.ArgumentParser()
    ap.add_argument("round", type=int)
    ap.add_argument("--ids")
    ap.add_argument("--root", default="/tmp/seed")
    a = ap.parse_args()
    props = [json.loads(line) for line in open(os.path.join(ROOT, "properties.jsonl"))]
    ids = a.ids.split(",") if a.ids else [p["id"] for p in props]
    os.makedirs(os.path.join(a.root, "prompts"), exist_ok=True)
    for p in props:
        pid = p["id"]
        if pid not in ids:
            continue
        wt = os.path.join(a.root, pid)
        if not os.path.isdir(wt):
            subprocess.run(["git", "-C", "/repo", "worktree", "add", "--detach", wt, "HEAD"], check=True, capture_output=True)
        used = []
        sdir = os.path.join(ROOT, "seeded")
        for name in sorted(os.listdir(sdir)):
            if name.startswith(pid + "_") and os.path.exists(os.path.join(sdir, name, "meta.json")):
                m = json.load(open(os.path.join(sdir, name, "meta.json")))
                used.append(f"- {m.get('summary')} (files: {m.get('files')})")
        text = TEMPLATE.format(wt=wt, root=a.root, record=json.dumps(p, indent=1), used="\n".join(used) or "- (none)", steer=STEER[a.round], pid=pid)
        out = os.path.join(a.root, "prompts", f"{pid}_r{a.round}.txt")
        with open(out, "w") as f:
            f.write(text)
        print(out)


if __name__ == "__main__":
    main()
