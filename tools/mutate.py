#!/usr/bin/env python3
"""Sensitivity harness: apply one small source edit to a scratch copy of /repo (outside /repo and /verif),
run the property's quick check against the copy (VERIF_REPO), expect exit 1 + VIOLATION, remove the copy.

  tools/mutate.py NAME [NAME...]      run the named mutants (mutants/NAME.json)
  tools/mutate.py --prop C01          run every mutant of a property
  tools/mutate.py --all               run all (parallel, 8 at a time)

Mutant file: {"property": "C01", "file": "<path under perception_eval/perception_eval>", "old": "...", "new": "...",
              "count": 1, "note": "...", "expect": "kill" | "survive"}   ("survive" = not detectable by design)
Multi-site mutants use "edits": [{"file","old","new"}...].
"""
import concurrent.futures
import glob
import json
import os
import shutil
import subprocess
import sys
import tempfile

ROOT = os.path.dirname(os.path.dirname(os.path.abspath(__file__)))
SRC = os.environ.get("VERIF_MUT_SRC", "/repo")


def run_one(name, tier="quick", keep_replay=False):
    m = json.load(open(os.path.join(ROOT, "mutants", name + ".json")))
    work = tempfile.mkdtemp(prefix="verif-mut-", dir="/var/tmp")
    try:
        dst = os.path.join(work, "repo")
        shutil.copytree(SRC, dst, ignore=shutil.ignore_patterns(".git", "__pycache__", "*.pyc", "sample_data"))
        # sample data is needed by some checks: symlink instead of copying
        sd = os.path.join(SRC, "perception_eval/test/sample_data")
        if os.path.isdir(sd):
            os.symlink(sd, os.path.join(dst, "perception_eval/test/sample_data"))
        edits = m.get("edits") or [{"file": m["file"], "old": m["old"], "new": m["new"], "count": m.get("count", 1)}]
        for e in edits:
            p = os.path.join(dst, "perception_eval/perception_eval", e["file"])
            s = open(p).read()
            c = s.count(e["old"])
            if c != e.get("count", 1):
                return name, "BROKEN-MUTANT", f"{e['file']}: expected {e.get('count', 1)} occurrence(s), found {c}"
            open(p, "w").write(s.replace(e["old"], e["new"]))
        env = dict(os.environ, VERIF_REPO=dst, VERIF_REPLAY_DIR=os.path.join(work, "replay"), VERIF_EVIDENCE_DIR=os.path.join(work, "evidence"))
        r = subprocess.run(
            [sys.executable if "venv" in sys.executable else "/venv/bin/python", os.path.join(ROOT, "run.py"), m["property"], "--tier", tier],
            cwd=ROOT,
            env=env,
            capture_output=True,
            text=True,
            timeout=3600,
        )
        viol = [l for l in r.stdout.splitlines() if l.startswith("VIOLATION")]
        sigs = [l.strip() for l in r.stdout.splitlines() if l.strip().startswith("signature:")]
        if r.returncode == 1 and viol:
            return name, "KILLED", "; ".join(sorted(set(sigs)))[:300]
        if r.returncode == 0:
            return name, "SURVIVED", ""
        return name, f"ERROR(exit {r.returncode})", (r.stdout + r.stderr)[-600:]
    finally:
        shutil.rmtree(work, ignore_errors=True)


def main():
    args = sys.argv[1:]
    tier = "quick"
    if "--tier" in args:
        i = args.index("--tier")
        tier = args[i + 1]
        del args[i : i + 2]
    names = []
    if args and args[0] == "--all":
        names = sorted(os.path.basename(p)[:-5] for p in glob.glob(os.path.join(ROOT, "mutants", "*.json")))
    elif args and args[0] == "--prop":
        for p in sorted(glob.glob(os.path.join(ROOT, "mutants", "*.json"))):
            if json.load(open(p))["property"] == args[1]:
                names.append(os.path.basename(p)[:-5])
    else:
        names = args
    bad = 0
    with concurrent.futures.ThreadPoolExecutor(max_workers=6) as ex:
        for name, verdict, info in ex.map(lambda n: run_one(n, tier), names):
            m = json.load(open(os.path.join(ROOT, "mutants", name + ".json")))
            expect = m.get("expect", "kill")
            ok = (verdict == "KILLED") == (expect == "kill") and not verdict.startswith(("ERROR", "BROKEN"))
            bad += 0 if ok else 1
            print(f"{'ok ' if ok else 'BAD'} {name:45s} {verdict:10s} expect={expect:8s} {info}")
    return 1 if bad else 0


if __name__ == "__main__":
    sys.exit(main())
