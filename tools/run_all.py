#!/usr/bin/env python3
"""Run every registered check (MANIFEST.json) at one tier for one or more seeds; print a table.
usage: tools/run_all.py [--tier quick|thorough] [--seeds 1,2,3] [--jobs 4] [--only C01,C02]
Evidence/replay files of these runs go to a scratch dir unless --in-place is given."""
import argparse, concurrent.futures, json, os, subprocess, sys, tempfile, time, shutil
ROOT = os.path.dirname(os.path.dirname(os.path.abspath(__file__)))
ap = argparse.ArgumentParser()
ap.add_argument("--tier", default="quick"); ap.add_argument("--seeds", default="1"); ap.add_argument("--jobs", type=int, default=4)
ap.add_argument("--only", default=""); ap.add_argument("--in-place", action="store_true")
a = ap.parse_args()
m = json.load(open(os.path.join(ROOT, "MANIFEST.json")))
ids = [c["property_id"] for c in m["checks"] if not a.only or c["property_id"] in a.only.split(",")]
scratch = None if a.in_place else tempfile.mkdtemp(prefix="verif-all-", dir="/var/tmp")
def one(job):
    pid, seed = job
    env = dict(os.environ, VERIF_SEED=str(seed))
    if scratch:
        env.update(VERIF_REPLAY_DIR=os.path.join(scratch, "replay"), VERIF_EVIDENCE_DIR=os.path.join(scratch, f"ev{seed}"))
    t = time.time()
    r = subprocess.run(["/venv/bin/python", os.path.join(ROOT, "run.py"), pid, "--tier", a.tier] + (["--jobs", "4"] if a.tier == "thorough" and a.jobs > 1 else []), cwd=ROOT, env=env, capture_output=True, text=True)
    lines = [l for l in r.stdout.splitlines() if l.startswith(("OK", "VIOLATION", "KNOWN", "HARNESS"))]
    return pid, seed, r.returncode, round(time.time() - t, 1), lines, r.stderr[-400:] if r.returncode == 2 else ""
jobs = [(p, int(s)) for s in a.seeds.split(",") for p in ids]
bad = 0
with concurrent.futures.ThreadPoolExecutor(a.jobs) as ex:
    for pid, seed, rc, dt, lines, err in ex.map(one, jobs):
        bad += rc != 0
        print(f"{pid} seed={seed} exit={rc} {dt:6.1f}s  " + " | ".join(l[:110] for l in lines[:3]) + (" ERR " + err if err else ""), flush=True)
if scratch: shutil.rmtree(scratch, ignore_errors=True)
sys.exit(1 if bad else 0)
