#!/usr/bin/env python3
"""Second stage of the operator sweep: survivors that neither the repository's tests nor the checks of the properties
anchored in the mutated file reported are run against ALL remaining checks (a mutant in a shared helper is usually seen by
a neighbouring property's check).  Functions that no listed property constrains are skipped (see IRRELEVANT)."""
import json, os, shutil, subprocess, sys, time
from concurrent.futures import ProcessPoolExecutor, as_completed

ROOT = os.path.dirname(os.path.dirname(os.path.abspath(__file__)))
OUT = "/var/tmp/opmut"
ORDER = ["C20", "C18", "C14", "C16", "C17", "C06", "C12", "C10", "C15", "C09", "C05", "C02", "C01", "C04", "C08", "C11", "C03", "C07", "C13", "C19"]
IRRELEVANT = (
    "rotation_matrix_to_euler", "get_point_left_right", "setup_axis", "PlotAxes", "get_velocity_error", "get_position_error", "get_heading_error",
    "_sample_to_frame_2d", "_merge_duplicated_traffic_lights", "_get_box_velocity", "save_precision_recall_graph", "get_scene_rates", "StatusRate",
    "summarize_score", "get_metrics_score", "get_aligned_timestamp", "convert_objects_to_base_link", "_load_dataset", "distance_error", "velocity_error",
    "get_velocity_transform_matrix", "get_pose_transform_matrix", "_check_metrics", "get_precision_recall_list", "filter_frame_by_distance",
)


def load():
    rows, seen = [], set()
    for fn in sorted(os.listdir(OUT)):
        if fn.startswith("progress-") or fn == "results.jsonl":
            for line in open(os.path.join(OUT, fn)):
                r = json.loads(line)
                if r["id"] not in seen:
                    seen.add(r["id"])
                    rows.append(r)
    return rows


def run_one(r, k):
    work = os.path.join(OUT, f"s2work-{k}")
    repo = os.path.join(work, "repo")
    if not os.path.isdir(repo):
        os.makedirs(work, exist_ok=True)
        shutil.copytree("/repo", repo, ignore=shutil.ignore_patterns(".git", "__pycache__", "*.pyc"))
    ms = {m["id"]: m for m in json.load(open(os.path.join(OUT, "mutants_all.json")))}
    m = ms[r["id"]]
    p = os.path.join(repo, m["file"])
    orig = open(os.path.join("/repo", m["file"])).read()
    try:
        open(p, "w").write(orig[: m["start"]] + m["new"] + orig[m["end"] :])
        env = dict(os.environ, VERIF_REPO=repo, VERIF_SEED="1", VERIF_EVIDENCE_DIR=os.path.join(work, "ev"), VERIF_REPLAY_DIR=os.path.join(work, "rp"), PYTHONDONTWRITEBYTECODE="1")
        for d in ("ev", "rp"):
            shutil.rmtree(os.path.join(work, d), ignore_errors=True)
            os.makedirs(os.path.join(work, d))
        out = dict(r)
        out["stage2"] = {}
        for c in ORDER:
            if c in r["checks"]:
                continue
            rr = subprocess.run(["/venv/bin/python", os.path.join(ROOT, "run.py"), c, "--tier", "quick"], env=env, capture_output=True, text=True, timeout=3600)
            sigs = [ln.split("signature:")[1].strip() for ln in rr.stdout.splitlines() if "signature:" in ln][:2]
            out["stage2"][c] = {"exit": rr.returncode, "sigs": sigs}
            if rr.returncode == 1:
                break
        out["detected2"] = any(v["exit"] == 1 for v in out["stage2"].values())
        return out
    finally:
        open(p, "w").write(orig)


def slot(rs, k):
    res = []
    for r in rs:
        try:
            res.append(run_one(r, k))
        except Exception as e:  # noqa: BLE001
            res.append(dict(r, stage2_error=f"{type(e).__name__}: {e}"))
        with open(os.path.join(OUT, "stage2.jsonl"), "a") as f:
            f.write(json.dumps(res[-1]) + "\n")
    return res


def main():
    jobs = int(sys.argv[1]) if len(sys.argv) > 1 else 12
    sys.path.insert(0, os.path.join(ROOT, "tools"))
    import opmut

    json.dump(opmut.enumerate_mutants(), open(os.path.join(OUT, "mutants_all.json"), "w"))
    done = set()
    if os.path.exists(os.path.join(OUT, "stage2.jsonl")):
        done = {json.loads(l)["id"] for l in open(os.path.join(OUT, "stage2.jsonl"))}
    rows = [r for r in load() if r.get("status") == "survived-tests" and not r.get("detected") and not any(k in r["func"] for k in IRRELEVANT) and r["id"] not in done]
    print(len(rows), "survivors for stage 2")
    slots = {k: rows[k::jobs] for k in range(jobs)}
    with ProcessPoolExecutor(jobs) as ex:
        futs = [ex.submit(slot, slots[k], k) for k in range(jobs)]
        for f in as_completed(futs):
            f.result()
    for k in range(jobs):
        shutil.rmtree(os.path.join(OUT, f"s2work-{k}"), ignore_errors=True)
    rows = [json.loads(l) for l in open(os.path.join(OUT, "stage2.jsonl"))]
    print("stage 2:", sum(1 for r in rows if r.get("detected2")), "detected by another property's check,", sum(1 for r in rows if not r.get("detected2")), "reported by no check")
    for r in rows:
        if not r.get("detected2"):
            print(f"SILENT {r['id']}  {r['func']}  `{r['old']}` -> `{r['new']}`")


if __name__ == "__main__":
    main()
