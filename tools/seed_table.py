#!/usr/bin/env python3
"""Writes seeded/README.md: one row per kept seeded change (what it does, what it needs, which tier of its property's check caught it)."""
import json, os
ROOT = os.path.dirname(os.path.dirname(os.path.abspath(__file__)))
sdir = os.path.join(ROOT, "seeded")
mx = {}
if os.path.exists(os.path.join(sdir, "MATRIX.json")):
    mx = json.load(open(os.path.join(sdir, "MATRIX.json")))
rows = []
for name in sorted(os.listdir(sdir)):
    mp = os.path.join(sdir, name, "meta.json")
    if not os.path.exists(mp):
        continue
    m = json.load(open(mp))
    conf = m.get("confirmed_by_us", {})
    first = "; ".join(f"{r['check']} {r['tier']}: {r['verdict']}" for r in conf.get("ran", []))
    caught = sorted(c for c, v in mx.get(name, {}).items() if v.get("exit") == 1)
    rows.append((name, m.get("property"), (m.get("summary") or "").replace("|", "/").replace("\n", " "), (m.get("needs") or "").replace("|", "/").replace("\n", " "), conf.get("tests", ""), first, ", ".join(caught)))
with open(os.path.join(sdir, "README.md"), "w") as f:
    f.write("# Seeded changes (written by fresh sub-agents that saw only the property text and a scratch worktree)\n\n")
    f.write("Each directory holds `patch.diff` (applies to /repo HEAD), `demo.py` (exits 0 on the original, 1 with the change) and `meta.json`\n(the agent's description + what we ran when confirming it: demo on clean/patched copy, repository test suite with the patch, our checks).\n")
    f.write("`first run` = verdict of the property's own check at the time the seed arrived (before any strengthening it triggered);\n`caught by (now)` = checks whose QUICK tier reports a VIOLATION with the current machinery (tools/seed_matrix.py, VERIF_SEED=1) — filled for the 40 seeds of rounds 1-2 only; for later seeds the `first run` column lists every run of the property's own check in order, and its last entry is the verdict of the machinery as it is now.\n\n")
    f.write("| seed | property | change | needs | test suite with change | first run | caught by (now) |\n|---|---|---|---|---|---|---|\n")
    for r in rows:
        f.write("| " + " | ".join(str(x) for x in r) + " |\n")
print(len(rows), "seeds")
