#!/usr/bin/env python3
"""Which checks catch which seeded changes?  For every /verif/seeded/<name> (or the names given), apply its patch to a
scratch copy of /repo and run the QUICK tier of every registered check against it; write seeded/MATRIX.json / MATRIX.md.

  tools/seed_matrix.py [names...] [--jobs 5] [--checks C01,C02]
"""
import argparse
import concurrent.futures
import json
import os
import shutil
import subprocess
import sys
import tempfile

ROOT = os.path.dirname(os.path.dirname(os.path.abspath(__file__)))
PY = "/venv/bin/python"


def main():
    ap = argparse.ArgumentParser()
    ap.add_argument("names", nargs="*")
    ap.add_argument("--jobs", type=int, default=5)
    ap.add_argument("--checks", default="")
    a = ap.parse_args()
    sdir = os.path.join(ROOT, "seeded")
    names = a.names or sorted(n for n in os.listdir(sdir) if os.path.isdir(os.path.join(sdir, n)))
    checks = [c["property_id"] for c in json.load(open(os.path.join(ROOT, "MANIFEST.json")))["checks"]]
    if a.checks:
        checks = [c for c in checks if c in a.checks.split(",")]
    mpath = os.path.join(sdir, "MATRIX.json")
    matrix = json.load(open(mpath)) if os.path.exists(mpath) else {}
    work = tempfile.mkdtemp(prefix="verif-matrix-", dir="/var/tmp")
    try:
        for name in names:
            copy = os.path.join(work, name)
            shutil.copytree("/repo", copy, ignore=shutil.ignore_patterns(".git", "__pycache__", "*.pyc"))
            r = subprocess.run(["patch", "-p1", "-s", "-i", os.path.join(sdir, name, "patch.diff")], cwd=copy, capture_output=True, text=True)
            if r.returncode != 0:
                print(name, "PATCH FAILED", r.stdout, r.stderr)
                continue

            def one(c, copy=copy, name=name):
                env = dict(os.environ, VERIF_REPO=copy, VERIF_REPLAY_DIR=os.path.join(work, "replay", name), VERIF_EVIDENCE_DIR=os.path.join(work, "ev", name))
                r = subprocess.run([PY, os.path.join(ROOT, "run.py"), c, "--tier", "quick"], cwd=ROOT, env=env, capture_output=True, text=True)
                sigs = sorted({l.strip()[len("signature: "):] for l in r.stdout.splitlines() if l.strip().startswith("signature:")})
                return c, r.returncode, sigs[:5]

            row = {}
            with concurrent.futures.ThreadPoolExecutor(a.jobs) as ex:
                for c, rc, sigs in ex.map(one, checks):
                    row[c] = {"exit": rc, "signatures": sigs}
            matrix.setdefault(name, {}).update(row)
            caught = [c for c in checks if row[c]["exit"] == 1]
            errs = [c for c in checks if row[c]["exit"] not in (0, 1)]
            print(f"{name}: caught by {caught}" + (f" ERRORS {errs}" if errs else ""), flush=True)
            shutil.rmtree(copy, ignore_errors=True)
            json.dump(matrix, open(mpath, "w"), indent=1, sort_keys=True)
    finally:
        shutil.rmtree(work, ignore_errors=True)
    # markdown
    allchecks = sorted({c for row in matrix.values() for c in row})
    with open(os.path.join(sdir, "MATRIX.md"), "w") as f:
        f.write("# Seeded changes x checks (quick tier, VERIF_SEED=1): X = VIOLATION reported, . = silent, E = harness error\n\n")
        f.write("| seed | " + " | ".join(c[1:] for c in allchecks) + " |\n|---|" + "---|" * len(allchecks) + "\n")
        for name in sorted(matrix):
            f.write(f"| {name} | " + " | ".join({0: ".", 1: "X"}.get(matrix[name].get(c, {}).get("exit"), "E") if c in matrix[name] else " " for c in allchecks) + " |\n")
    return 0


if __name__ == "__main__":
    sys.exit(main())
