#!/usr/bin/env python3
"""Regenerates MANIFEST.json from tools/manifest_src.json (per-property texts) — keeps it schema-valid."""
import json, os
ROOT = os.path.dirname(os.path.dirname(os.path.abspath(__file__)))
src = json.load(open(os.path.join(ROOT, "tools", "manifest_src.json")))
props = [json.loads(l) for l in open(os.path.join(ROOT, "properties.jsonl"))]
checks, na = [], []
for p in props:
    pid = p["id"]
    e = src["checks"].get(pid)
    if e is None or not os.path.exists(os.path.join(ROOT, "checks", pid.lower() + ".py")):
        na.append({"property_id": pid, "reason": src["not_applicable"].get(pid, "check not built yet (work in progress); property-based testing applies, see DESIGN.md §6")})
        continue
    checks.append({
        "property_id": pid,
        "quick_cmd": f"/venv/bin/python run.py {pid} --tier quick",
        "thorough_cmd": f"/venv/bin/python run.py {pid} --tier thorough",
        "evidence_file": f"/verif/evidence/{pid}.json",
        "replay_cmd_template": f"/venv/bin/python run.py {pid} --replay {{path}}",
        "engine": "hypothesis-pbt",
        "level_claimed": {"category": "exploration", "text": e["text"], "design_ref": e.get("design_ref", f"DESIGN.md §6 {pid}")},
        "level_note": e["note"],
        "technique": e["technique"],
    })
m = {
    "version": 1,
    "setup_cmd": src["setup_cmd"],
    "hooks": src["hooks"],
    "engines": src["engines"],
    "checks": checks,
    "notes": src["notes"],
    "not_applicable": na,
}
json.dump(m, open(os.path.join(ROOT, "MANIFEST.json"), "w"), indent=1)
print(f"{len(checks)} checks, {len(na)} not_applicable")
