#!/usr/bin/env python3
"""Systematic operator-level mutation sweep over the files the properties are anchored in.

  tools/opmut.py enumerate                       -> /var/tmp/opmut/mutants.json (all mutation points)
  tools/opmut.py run [--sample N] [--seed S] [--jobs J] [--files a.py,b.py]
        for each sampled mutant: (1) the repository's test suite must still pass (otherwise the mutant is "killed by
        tests" and dropped: we only care about changes the tests cannot see); (2) the quick tier of every check whose
        property is anchored in the mutated file runs against the mutated copy (VERIF_REPO).
        Results -> /var/tmp/opmut/results.jsonl (one line per mutant), summary printed at the end.
  tools/opmut.py report                          -> table of survivors no check reported (to be triaged by hand)

Operators (classic, one token each): comparison direction / equality flips, and<->or, `not` removal, +<->-, *<->/,
min<->max, any<->all, abs() removal, True<->False, integer 0<->1 in subscripts / arithmetic, `is None`<->`is not None`,
`in`<->`not in`, removal of a `continue` / `break` guarded by an if.  Boundary-only flips (< vs <=) are NOT generated:
decisions within 1e-6 of a boundary are deliberately not asserted by the checks (margin rule), so such mutants are
equivalent under the stated tolerances.
Scratch copies live under /var/tmp/opmut/work-<k> and are removed at the end.
"""
import argparse
import ast
import json
import os
import random
import shutil
import subprocess
import sys
import time
from concurrent.futures import ProcessPoolExecutor, as_completed

ROOT = os.path.dirname(os.path.dirname(os.path.abspath(__file__)))
OUT = "/var/tmp/opmut"
PKG = "perception_eval/perception_eval"
SKIP_FUNCS = ("plot", "__repr__", "__str__", "_get_flat_str", "summary", "serialization", "deserialization", "box_plot", "get_metrics_score_dataframe")


def anchored():
    m = {}
    for line in open(os.path.join(ROOT, "properties.jsonl")):
        d = json.loads(line)
        for f in d["anchors"]["files"]:
            m.setdefault(f, []).append(d["id"])
    return m


CMP = {ast.Lt: ">", ast.LtE: ">=", ast.Gt: "<", ast.GtE: "<=", ast.Eq: "!=", ast.NotEq: "==", ast.In: "not in", ast.NotIn: "in", ast.Is: "is not", ast.IsNot: "is"}
CMP_SRC = {ast.Lt: "<", ast.LtE: "<=", ast.Gt: ">", ast.GtE: ">=", ast.Eq: "==", ast.NotEq: "!=", ast.In: "in", ast.NotIn: "not in", ast.Is: "is", ast.IsNot: "is not"}
BIN = {ast.Add: ("+", "-"), ast.Sub: ("-", "+"), ast.Mult: ("*", "/"), ast.Div: ("/", "*")}
NAMES = {"min": "max", "max": "min", "any": "all", "all": "any"}


class Finder(ast.NodeVisitor):
    def __init__(self, src):
        self.src = src
        self.lines = src.splitlines(keepends=True)
        self.off = [0]
        for ln in self.lines:
            self.off.append(self.off[-1] + len(ln))
        self.out = []
        self.func = []

    def pos(self, line, col):
        # col is a utf8 byte offset; sources are ascii except for a few comments
        return self.off[line - 1] + len(self.lines[line - 1].encode()[:col].decode())

    def seg(self, node):
        return self.pos(node.lineno, node.col_offset), self.pos(node.end_lineno, node.end_col_offset)

    def add(self, a, b, new, kind, node):
        self.out.append({"start": a, "end": b, "old": self.src[a:b], "new": new, "kind": kind, "line": node.lineno, "func": ".".join(self.func)})

    def visit_FunctionDef(self, node):
        if any(k in node.name for k in SKIP_FUNCS):
            return
        self.func.append(node.name)
        # skip the docstring
        body = node.body
        if body and isinstance(body[0], ast.Expr) and isinstance(getattr(body[0], "value", None), ast.Constant) and isinstance(body[0].value.value, str):
            body = body[1:]
        for b in body:
            self.visit(b)
        self.func.pop()

    visit_AsyncFunctionDef = visit_FunctionDef

    def visit_ClassDef(self, node):
        if node.name in ("PlotAxes",):  # plotting helpers
            return
        self.func.append(node.name)
        self.generic_visit(node)
        self.func.pop()

    def between(self, left, right, olds):
        a = self.seg(left)[1]
        b = self.seg(right)[0]
        txt = self.src[a:b]
        for old in olds:
            i = txt.find(old)
            if i >= 0:
                return a + i, a + i + len(old)
        return None

    def visit_Compare(self, node):
        if not self.func:
            return self.generic_visit(node)
        left = node.left
        for op, right in zip(node.ops, node.comparators):
            t = type(op)
            if t in CMP:
                r = self.between(left, right, [CMP_SRC[t]])
                if r:
                    self.add(r[0], r[1], CMP[t], "cmp", node)
            left = right
        self.generic_visit(node)

    def visit_BoolOp(self, node):
        if self.func:
            old, new = ("and", "or") if isinstance(node.op, ast.And) else ("or", "and")
            for l, r in zip(node.values, node.values[1:]):
                rr = self.between(l, r, [old])
                if rr:
                    self.add(rr[0], rr[1], new, "bool", node)
        self.generic_visit(node)

    def visit_UnaryOp(self, node):
        if self.func and isinstance(node.op, ast.Not):
            a, b = self.seg(node)
            oa, ob = self.seg(node.operand)
            self.add(a, b, self.src[oa:ob], "not-removed", node)
        if self.func and isinstance(node.op, ast.USub) and not isinstance(node.operand, ast.Constant):
            a, b = self.seg(node)
            oa, ob = self.seg(node.operand)
            self.add(a, b, self.src[oa:ob], "neg-removed", node)
        self.generic_visit(node)

    def visit_BinOp(self, node):
        t = type(node.op)
        if self.func and t in BIN and not (isinstance(node.left, ast.Constant) and isinstance(node.left.value, str)) and not isinstance(node.left, ast.JoinedStr):
            r = self.between(node.left, node.right, [BIN[t][0]])
            if r:
                self.add(r[0], r[1], BIN[t][1], "arith", node)
        self.generic_visit(node)

    def visit_Call(self, node):
        if self.func and isinstance(node.func, ast.Name):
            if node.func.id in NAMES:
                a, b = self.seg(node.func)
                self.add(a, b, NAMES[node.func.id], "name", node)
            if node.func.id == "abs" and len(node.args) == 1:
                a, b = self.seg(node)
                oa, ob = self.seg(node.args[0])
                self.add(a, b, "(" + self.src[oa:ob] + ")", "abs-removed", node)
        self.generic_visit(node)

    def visit_Constant(self, node):
        if self.func and node.value is True:
            self.add(*self.seg(node), "False", "const", node)
        elif self.func and node.value is False:
            self.add(*self.seg(node), "True", "const", node)
        elif self.func and isinstance(node.value, int) and not isinstance(node.value, bool) and node.value in (0, 1):
            self.add(*self.seg(node), str(1 - node.value), "const", node)

    def visit_If(self, node):
        if self.func and len(node.body) == 1 and isinstance(node.body[0], (ast.Continue, ast.Break)) and not node.orelse:
            a, b = self.seg(node.body[0])
            self.add(a, b, "pass", "guard-removed", node)
        self.generic_visit(node)


def enumerate_mutants(files=None):
    anc = anchored()
    out = []
    for f in sorted(anc):
        if files and not any(f.endswith(x) for x in files):
            continue
        src = open(os.path.join("/repo", f)).read()
        fd = Finder(src)
        fd.visit(ast.parse(src))
        for i, m in enumerate(fd.out):
            m.update(file=f, props=anc[f], id=f"{os.path.basename(f)}:{m['line']}:{m['kind']}:{i}")
            out.append(m)
    return out


def run_one(m, k, tier):
    work = os.path.join(OUT, f"work-{k}")
    repo = os.path.join(work, "repo")
    if not os.path.isdir(repo):
        os.makedirs(work, exist_ok=True)
        shutil.copytree("/repo", repo, ignore=shutil.ignore_patterns(".git", "__pycache__", "*.pyc"))
    p = os.path.join(repo, m["file"])
    orig = open(os.path.join("/repo", m["file"])).read()
    res = {"id": m["id"], "file": m["file"], "line": m["line"], "kind": m["kind"], "old": m["old"], "new": m["new"], "func": m["func"], "props": m["props"]}
    try:
        mutated = orig[: m["start"]] + m["new"] + orig[m["end"] :]
        try:
            ast.parse(mutated)
        except SyntaxError:
            res["status"] = "syntax-error"
            return res
        open(p, "w").write(mutated)
        # (1) our checks first (cheap, stop at the first one that reports); (2) only for mutants no check reports: does
        # the repository's own suite still pass?  (A mutant the tests kill is not a gap.)
        env2 = dict(os.environ, VERIF_REPO=repo, VERIF_SEED="1", VERIF_EVIDENCE_DIR=os.path.join(work, "ev"), VERIF_REPLAY_DIR=os.path.join(work, "rp"), PYTHONDONTWRITEBYTECODE="1")
        shutil.rmtree(env2["VERIF_EVIDENCE_DIR"], ignore_errors=True)
        shutil.rmtree(env2["VERIF_REPLAY_DIR"], ignore_errors=True)
        os.makedirs(env2["VERIF_EVIDENCE_DIR"])
        os.makedirs(env2["VERIF_REPLAY_DIR"])
        det = {}
        t0 = time.time()
        for c in m["props"]:
            rr = subprocess.run(["/venv/bin/python", os.path.join(ROOT, "run.py"), c, "--tier", tier], env=env2, capture_output=True, text=True, timeout=3600)
            sigs = [ln.split("signature:")[1].strip() for ln in rr.stdout.splitlines() if "signature:" in ln][:3]
            det[c] = {"exit": rr.returncode, "sigs": sigs}
            if rr.returncode == 1:
                break
        res["checks"] = det
        res["checks_s"] = round(time.time() - t0, 1)
        res["detected"] = any(v["exit"] == 1 for v in det.values())
        res["harness_error"] = any(v["exit"] not in (0, 1) for v in det.values())
        if res["detected"]:
            res["status"] = "detected"
            return res
        tdir = os.path.join(work, "tmp")  # the plotting tests leave ~90 MB per run in the temp dir
        shutil.rmtree(tdir, ignore_errors=True)
        os.makedirs(tdir)
        env = dict(os.environ, PYTHONPATH=os.path.join(repo, "perception_eval"), OPENBLAS_NUM_THREADS="1", OMP_NUM_THREADS="1", PYTHONDONTWRITEBYTECODE="1", TMPDIR=tdir)
        t0 = time.time()
        r = subprocess.run(["/venv/bin/python", "-m", "pytest", "-q", "-x", "-p", "no:cacheprovider", "-n", "2", "--timeout=600", "perception_eval/test"], cwd=repo, env=env, capture_output=True, text=True, timeout=1800)
        res["tests_s"] = round(time.time() - t0, 1)
        res["status"] = "killed-by-tests" if r.returncode != 0 else "survived-tests"
        return res
    finally:
        open(p, "w").write(orig)


def main():
    ap = argparse.ArgumentParser()
    ap.add_argument("cmd")
    ap.add_argument("--sample", type=int, default=0)
    ap.add_argument("--seed", type=int, default=1)
    ap.add_argument("--jobs", type=int, default=4)
    ap.add_argument("--files")
    ap.add_argument("--tier", default="quick")
    a = ap.parse_args()
    os.makedirs(OUT, exist_ok=True)
    if a.cmd == "enumerate":
        ms = enumerate_mutants(a.files.split(",") if a.files else None)
        json.dump(ms, open(os.path.join(OUT, "mutants.json"), "w"), indent=0)
        by = {}
        for m in ms:
            by[m["file"]] = by.get(m["file"], 0) + 1
        for f, n in sorted(by.items()):
            print(n, f)
        print(len(ms), "mutation points")
        return 0
    if a.cmd == "run":
        ms = enumerate_mutants(a.files.split(",") if a.files else None)
        done = set()
        rp = os.path.join(OUT, "results.jsonl")
        if os.path.exists(rp):
            done = {json.loads(line)["id"] for line in open(rp)}
        ms = [m for m in ms if m["id"] not in done]
        rnd = random.Random(a.seed)
        rnd.shuffle(ms)
        if a.sample:
            ms = ms[: a.sample]
        print(len(ms), "mutants to run")
        with ProcessPoolExecutor(a.jobs) as ex, open(rp, "a") as out:
            # one work dir per worker slot: assign by index modulo jobs, sequentially per slot
            slots = {k: [] for k in range(a.jobs)}
            for i, m in enumerate(ms):
                slots[i % a.jobs].append(m)
            futs = [ex.submit(run_slot, slots[k], k, a.tier) for k in range(a.jobs)]
            for f in as_completed(futs):
                for res in f.result():
                    out.write(json.dumps(res) + "\n")
                    out.flush()
        for k in range(a.jobs):
            shutil.rmtree(os.path.join(OUT, f"work-{k}"), ignore_errors=True)
        return report()
    if a.cmd == "report":
        return report()


def run_slot(ms, k, tier):
    out = []
    for m in ms:
        try:
            out.append(run_one(m, k, tier))
        except Exception as e:  # noqa: BLE001
            out.append({"id": m["id"], "status": f"error:{type(e).__name__}:{e}"})
        with open(os.path.join(OUT, f"progress-{k}.jsonl"), "a") as f:
            f.write(json.dumps(out[-1]) + "\n")
    return out


def report():
    rp = os.path.join(OUT, "results.jsonl")
    rows = [json.loads(line) for line in open(rp)] if os.path.exists(rp) else []
    # progress files hold results of slots that have not returned yet
    seen = {r["id"] for r in rows}
    for fn in os.listdir(OUT):
        if fn.startswith("progress-"):
            for line in open(os.path.join(OUT, fn)):
                r = json.loads(line)
                if r["id"] not in seen:
                    rows.append(r)
                    seen.add(r["id"])
    st = {}
    for r in rows:
        key = r["status"] if r["status"] != "survived-tests" else ("harness-error" if r.get("harness_error") else "UNDETECTED")
        st[key] = st.get(key, 0) + 1
    print(json.dumps(st))
    for r in rows:
        if r["status"] == "survived-tests" and not r.get("detected"):
            print(f"UNDETECTED {r['id']}  {r['func']}  `{r['old']}` -> `{r['new']}`  checks={ {c: v['exit'] for c, v in r['checks'].items()} }")
    return 0


if __name__ == "__main__":
    sys.exit(main())
