"""Reference keep-predicate of the object filter, written from the documentation of
filter_objects / filter_object_results and the statement of C10.  Pure Python.

Object view `o` (ego-frame coordinates!):
  {"label": str, "x": float|None, "y": float|None, "score": float, "pts": int|None, "uuid": str|None,
   "name": str, "attrs": [str]}
Criteria `c` (all optional): {"targets": [label...], "ignore": [str...], "max_x": [...], "max_y": [...],
  "max_d": [...], "min_d": [...], "conf": [...], "min_pts": [...], "uuids": [...]} — per-label lists are
indexed by the position of the object's label in "targets".

Returns (keep, margin): margin = smallest distance of a *continuous* comparison (range bounds) from its bound;
callers skip the margin-sensitive assertion when margin < 1e-6.
"""
import math

INF = float("inf")


def _mean(v):
    return sum(v) / len(v)


def keep_object(o, is_gt, c):
    label = o["label"]
    if label == "false_positive":
        return True, INF
    targets = c.get("targets") or None
    unknown_est = (label == "unknown") and not is_gt
    relaxed = unknown_est and not (targets is not None and "unknown" in targets)

    def per_label(lst, unknown_value):
        if relaxed:
            return unknown_value(lst)
        return lst[targets.index(label)]

    if targets is not None and not relaxed and label not in targets:
        return False, INF
    ignore = c.get("ignore")
    if ignore is not None and not relaxed:
        for key in ignore:
            if key in o.get("name", label) or key in (o.get("attrs") or []):
                return False, INF
    margin = INF
    keep = True
    if c.get("conf") is not None and not is_gt:
        thr = per_label(c["conf"], lambda lst: 0.0)
        if not (o["score"] > thr):
            return False, INF
    if o.get("x") is not None:
        x, y = o["x"], o["y"]
        d = math.hypot(x, y)
        if c.get("max_x") is not None:
            b = per_label(c["max_x"], _mean)
            margin = min(margin, abs(abs(x) - b))
            keep = keep and abs(x) < b
        if c.get("max_y") is not None:
            b = per_label(c["max_y"], _mean)
            margin = min(margin, abs(abs(y) - b))
            keep = keep and abs(y) < b
        if c.get("max_d") is not None:
            b = per_label(c["max_d"], _mean)
            margin = min(margin, abs(d - b))
            keep = keep and d < b
        if c.get("min_d") is not None:
            b = per_label(c["min_d"], _mean)
            margin = min(margin, abs(d - b))
            keep = keep and d > b
        if c.get("min_pts") is not None and is_gt:
            b = per_label(c["min_pts"], lambda lst: 0)
            keep = keep and o["pts"] >= b
    if c.get("uuids") is not None and is_gt:
        keep = keep and o.get("uuid") in c["uuids"]
    return keep, margin


EST_KEYS = ("targets", "max_x", "max_y", "max_d", "min_d", "conf")
GT_KEYS = ("targets", "ignore", "max_x", "max_y", "max_d", "min_d", "min_pts", "uuids")


def keep_result(est, gt, c):
    """A result is kept iff its estimate passes the estimate criteria and its GT (if any) the GT criteria;
    with target uuids configured a result without GT is dropped."""
    ce = {k: c.get(k) for k in EST_KEYS}
    cg = {k: c.get(k) for k in GT_KEYS}
    k1, m1 = keep_object(est, False, ce)
    if gt is None:
        if c.get("uuids"):
            return False, m1
        return k1, m1
    k2, m2 = keep_object(gt, True, cg)
    return (k1 and k2), min(m1, m2)
