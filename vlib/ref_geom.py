"""Reference geometry — pure Python, no numpy/shapely/pyquaternion/perception_eval.

Quaternions are (w, x, y, z) tuples, rigid transforms are (translation, quaternion) pairs mapping
source coordinates to destination coordinates:  p_dst = R(q) p_src + t.
Box sizes follow the library's convention (width, length, height): length along the object's x axis,
width along its y axis.
"""
import math

PI = math.pi


# ------------------------------------------------------------------------------------------------
# angles / quaternions
# ------------------------------------------------------------------------------------------------


def wrap(a):
    """Wrap to (-pi, pi]."""
    a = math.fmod(a, 2 * PI)
    if a > PI:
        a -= 2 * PI
    elif a <= -PI:
        a += 2 * PI
    return a


def absdiff_angle(a, b):
    """Minimal absolute angular difference in [0, pi]."""
    return abs(wrap(a - b))


def q_mul(a, b):
    aw, ax, ay, az = a
    bw, bx, by, bz = b
    return (
        aw * bw - ax * bx - ay * by - az * bz,
        aw * bx + ax * bw + ay * bz - az * by,
        aw * by - ax * bz + ay * bw + az * bx,
        aw * bz + ax * by - ay * bx + az * bw,
    )


def q_conj(q):
    return (q[0], -q[1], -q[2], -q[3])


def q_norm(q):
    n = math.sqrt(sum(c * c for c in q))
    return tuple(c / n for c in q)


def q_neg(q):
    return tuple(-c for c in q)


def q_from_axis_angle(axis, angle):
    n = math.sqrt(sum(c * c for c in axis))
    if n == 0:
        return (1.0, 0.0, 0.0, 0.0)
    s = math.sin(angle / 2) / n
    return (math.cos(angle / 2), axis[0] * s, axis[1] * s, axis[2] * s)


def q_from_yaw(yaw, sign=1):
    q = (math.cos(yaw / 2), 0.0, 0.0, math.sin(yaw / 2))
    return q if sign >= 0 else q_neg(q)


def q_from_ypr(yaw, pitch=0.0, roll=0.0, sign=1):
    """Intrinsic z-y'-x'' (yaw, pitch, roll), the convention of pyquaternion.yaw_pitch_roll."""
    q = q_mul(q_mul(q_from_yaw(yaw), q_from_axis_angle((0, 1, 0), pitch)), q_from_axis_angle((1, 0, 0), roll))
    return q if sign >= 0 else q_neg(q)


def q_to_matrix(q):
    w, x, y, z = q_norm(q)
    return [
        [1 - 2 * (y * y + z * z), 2 * (x * y - z * w), 2 * (x * z + y * w)],
        [2 * (x * y + z * w), 1 - 2 * (x * x + z * z), 2 * (y * z - x * w)],
        [2 * (x * z - y * w), 2 * (y * z + x * w), 1 - 2 * (x * x + y * y)],
    ]


def q_rotate(q, v):
    m = q_to_matrix(q)
    return tuple(m[i][0] * v[0] + m[i][1] * v[1] + m[i][2] * v[2] for i in range(3))


def yaw_of(q):
    """Yaw of the rotation (heading of the rotated x axis projected on the xy plane), in (-pi, pi]."""
    m = q_to_matrix(q)
    return math.atan2(m[1][0], m[0][0])


def q_same_rotation(a, b, tol=1e-9):
    a, b = q_norm(a), q_norm(b)
    d = abs(sum(x * y for x, y in zip(a, b)))
    return abs(d - 1.0) <= tol


def q_angle_between(a, b):
    a, b = q_norm(a), q_norm(b)
    d = min(1.0, abs(sum(x * y for x, y in zip(a, b))))
    return 2 * math.acos(d)


def q_slerp(a, b, alpha):
    """Shortest-arc spherical interpolation."""
    a, b = q_norm(a), q_norm(b)
    d = sum(x * y for x, y in zip(a, b))
    if d < 0:
        b, d = q_neg(b), -d
    d = min(1.0, d)
    th = math.acos(d)
    if th < 1e-12:
        return q_norm(tuple(x + alpha * (y - x) for x, y in zip(a, b)))
    s = math.sin(th)
    wa, wb = math.sin((1 - alpha) * th) / s, math.sin(alpha * th) / s
    return q_norm(tuple(wa * x + wb * y for x, y in zip(a, b)))


# ------------------------------------------------------------------------------------------------
# rigid transforms
# ------------------------------------------------------------------------------------------------


def tf_apply(tf, p):
    t, q = tf
    r = q_rotate(q, p)
    return (r[0] + t[0], r[1] + t[1], r[2] + t[2])


def tf_apply_q(tf, q):
    return q_mul(tf[1], q)


def tf_inv(tf):
    t, q = tf
    qi = q_conj(q_norm(q))
    r = q_rotate(qi, t)
    return ((-r[0], -r[1], -r[2]), qi)


def tf_compose(b, a):
    """b after a."""
    return (tf_apply(b, a[0]), q_mul(b[1], a[1]))


def ego_tf(ego):
    """ego = [x, y, yaw], [x, y, z, yaw] or [x, y, z, yaw, pitch, roll] (ego on a slope): base_link -> map."""
    if len(ego) == 3:
        x, y, yaw = ego
        z = 0.0
    elif len(ego) == 4:
        x, y, z, yaw = ego
    else:
        x, y, z, yaw, pitch, roll = ego
        return ((x, y, z), q_from_ypr(yaw, pitch, roll))
    return ((x, y, z), q_from_yaw(yaw))


# ------------------------------------------------------------------------------------------------
# rectangles / polygons
# ------------------------------------------------------------------------------------------------


def rect_corners(x, y, yaw, width, length, scale=1.0):
    """Footprint corners in the library's order: (+l/2,+w/2), (-l/2,+w/2), (-l/2,-w/2), (+l/2,-w/2)."""
    c, s = math.cos(yaw), math.sin(yaw)
    out = []
    for lx, ly in ((length / 2, width / 2), (-length / 2, width / 2), (-length / 2, -width / 2), (length / 2, -width / 2)):
        lx *= scale
        ly *= scale
        out.append((x + c * lx - s * ly, y + s * lx + c * ly))
    return out


def poly_area(poly):
    a = 0.0
    n = len(poly)
    for i in range(n):
        x1, y1 = poly[i]
        x2, y2 = poly[(i + 1) % n]
        a += x1 * y2 - x2 * y1
    return a / 2.0


def _ccw(poly):
    return poly if poly_area(poly) >= 0 else list(reversed(poly))


def clip_convex(subject, clip):
    """Sutherland–Hodgman: intersection polygon of two convex polygons."""
    subject = _ccw(list(subject))
    clip = _ccw(list(clip))
    out = subject
    n = len(clip)
    for i in range(n):
        if not out:
            break
        ax, ay = clip[i]
        bx, by = clip[(i + 1) % n]
        inp, out = out, []

        def side(p):
            return (bx - ax) * (p[1] - ay) - (by - ay) * (p[0] - ax)

        for j in range(len(inp)):
            p, q = inp[j], inp[(j + 1) % len(inp)]
            sp, sq = side(p), side(q)
            if sp >= 0:
                out.append(p)
            if (sp > 0 and sq < 0) or (sp < 0 and sq > 0):
                t = sp / (sp - sq)
                out.append((p[0] + t * (q[0] - p[0]), p[1] + t * (q[1] - p[1])))
    return out


def inter_area(p1, p2):
    c = clip_convex(p1, p2)
    return abs(poly_area(c)) if len(c) >= 3 else 0.0


def iou_polys(p1, p2):
    a1, a2 = abs(poly_area(p1)), abs(poly_area(p2))
    i = inter_area(p1, p2)
    return i / (a1 + a2 - i)


def box_iou_bev(b1, b2):
    """b = dict/tuple with x, y, yaw, w, l."""
    return iou_polys(rect_corners(*b1[:5]), rect_corners(*b2[:5]))


def height_overlap(z1, h1, z2, h2):
    return max(0.0, min(z1 + h1 / 2, z2 + h2 / 2) - max(z1 - h1 / 2, z2 - h2 / 2))


def box_iou_3d(b1, z1, h1, b2, z2, h2):
    p1, p2 = rect_corners(*b1[:5]), rect_corners(*b2[:5])
    inter = inter_area(p1, p2) * height_overlap(z1, h1, z2, h2)
    v1, v2 = abs(poly_area(p1)) * h1, abs(poly_area(p2)) * h2
    return inter / (v1 + v2 - inter)


def point_in_polygon(pt, poly):
    """Even-odd crossing test; points on the boundary are unspecified."""
    x, y = pt
    inside = False
    n = len(poly)
    for i in range(n):
        x1, y1 = poly[i]
        x2, y2 = poly[(i + 1) % n]
        if (y1 > y) != (y2 > y):
            xi = x1 + (y - y1) * (x2 - x1) / (y2 - y1)
            if x < xi:
                inside = not inside
    return inside


def dist_point_segment(pt, a, b):
    px, py = pt
    ax, ay = a
    bx, by = b
    dx, dy = bx - ax, by - ay
    L2 = dx * dx + dy * dy
    if L2 == 0:
        return math.hypot(px - ax, py - ay)
    t = max(0.0, min(1.0, ((px - ax) * dx + (py - ay) * dy) / L2))
    return math.hypot(px - (ax + t * dx), py - (ay + t * dy))


def dist_point_polygon_boundary(pt, poly):
    n = len(poly)
    return min(dist_point_segment(pt, poly[i], poly[(i + 1) % n]) for i in range(n))


def point_in_box_local(pt, x, y, yaw, width, length, scale=1.0):
    """Signed margin (>0 inside) of a point w.r.t. the scaled rotated rectangle, by change of coordinates."""
    c, s = math.cos(yaw), math.sin(yaw)
    dx, dy = pt[0] - x, pt[1] - y
    lx = c * dx + s * dy
    ly = -s * dx + c * dy
    return min(scale * length / 2 - abs(lx), scale * width / 2 - abs(ly))


def plane_distance(est_corners, gt_corners, gt_corners_ego, tie_tol=1e-9):
    """RMS distance between the corresponding corners of the GT side nearest to the ego.

    Returns the list of admissible values: one value, unless the choice of the two nearest GT corners is a tie
    (within tie_tol), in which case every tie-consistent pair of corners is admissible.
    """
    import itertools

    d = [math.hypot(c[0], c[1]) for c in gt_corners_ego]
    ds = sorted(d)
    second = ds[1]
    cand = [i for i in range(4) if d[i] <= second + tie_tol]  # corners that can be among the two nearest
    must = [i for i in cand if d[i] < second - tie_tol]  # strictly nearer than the second: always chosen
    vals = []
    for f, s in itertools.combinations(cand, 2):
        if any(m not in (f, s) for m in must):
            continue
        dl = math.hypot(est_corners[f][0] - gt_corners[f][0], est_corners[f][1] - gt_corners[f][1])
        dr = math.hypot(est_corners[s][0] - gt_corners[s][0], est_corners[s][1] - gt_corners[s][1])
        vals.append(math.sqrt(0.5 * (dl * dl + dr * dr)))
    return vals
