"""Reference threshold normaliser (oracle of C15) — pure Python, no perception_eval import.

Written from the docstrings of `set_thresholds`, `__get_thresholds`, `__get_nested_thresholds`,
`check_thresholds`, `check_nested_thresholds` (perception_eval/common/threshold.py) and from the statement of
property C15, not from their bodies:

  flat (nest=False), n target labels
      x            -> [x]*n                         scalar broadcasts
      [x]          -> [x]*n                         singleton broadcasts
      [x1..xn]     -> [x1..xn]
      []                              -> error      "Empty list is invalid"
      any non-number element          -> error      "Type of all elements must be ..."
      length not in {1, n}            -> error      "Number of list elements must be n or 1"

  nested (nest=True)
      x                    -> [[x]*n]
      [x1..xk]             -> [[x1]*n, .., [xk]*n]   every entry is one threshold level for all labels
                              (k == n is ambiguous: it can also be read as ONE level with per-label values,
                               [[x1..xn]]; the docstrings are silent, the unit test pins the latter.
                               Both satisfy "one value per label", so both are allowed outcomes.)
      [[row] ..]           -> rows of length 1 broadcast, rows of length n kept
      []                              -> error
      numbers and lists mixed         -> error      "Type of all elements must be same"
      a row of length not in {1, n}   -> error      "expected the number of each element is n or 1"
      a non-number inside a row       -> error      (rows are List[Real])

A "number" is an int or a float that is not a bool (the statement is silent on bools / NaN / tuples; the check
never generates them, and `is_number` says False for bool so that a stray one is treated as out of domain).
Everything that is neither a number nor a list (str, None, dict, ...) is a non-numeric entry.
"""


class Reject(Exception):
    """The reference refuses the specification; `.reason` is a short stable class name."""

    def __init__(self, reason):
        super().__init__(reason)
        self.reason = reason


def is_number(x):
    return isinstance(x, (int, float)) and not isinstance(x, bool)


def depth(spec):
    """Nesting depth: number 0, flat list 1, list of lists 2, ... (empty list counts as 1)."""
    if not isinstance(spec, list):
        return 0
    return 1 + max([depth(e) for e in spec] + [0])


def flat_forms(spec, n):
    """All allowed normal forms (exactly one) for nest=False, or raise Reject."""
    if is_number(spec):
        return [[spec] * n]
    if not isinstance(spec, list):
        raise Reject("not-number-or-list")
    if len(spec) == 0:
        raise Reject("empty")
    if not all(is_number(e) for e in spec):
        raise Reject("non-numeric")
    if len(spec) == 1:
        return [[spec[0]] * n]
    if len(spec) == n:
        return [list(spec)]
    raise Reject("wrong-length")


def nested_forms(spec, n):
    """All allowed normal forms for nest=True (one, or two in the ambiguous flat-list-of-length-n case)."""
    if is_number(spec):
        return [[[spec] * n]]
    if not isinstance(spec, list):
        raise Reject("not-number-or-list")
    if len(spec) == 0:
        raise Reject("empty")
    numbers = [is_number(e) for e in spec]
    lists = [isinstance(e, list) for e in spec]
    if all(numbers):
        per_level = [[e] * n for e in spec]
        if len(spec) == n:
            per_label = [list(spec)]
            return [per_label] if per_label == per_level else [per_label, per_level]
        return [per_level]
    if all(lists):
        rows = []
        for row in spec:
            if len(row) == 0:
                raise Reject("empty-row")
            if not all(is_number(e) for e in row):
                raise Reject("non-numeric-row" if not any(isinstance(e, list) for e in row) else "too-deep")
            if len(row) == 1:
                rows.append([row[0]] * n)
            elif len(row) == n:
                rows.append(list(row))
            else:
                raise Reject("wrong-row-length")
        return [rows]
    if any(numbers) and any(lists) and all(a or b for a, b in zip(numbers, lists)):
        raise Reject("mixed-numbers-and-lists")
    raise Reject("non-numeric")


def forms(spec, n, nest):
    return nested_forms(spec, n) if nest else flat_forms(spec, n)


def verdict(spec, n, nest):
    """(True, [allowed normal forms]) or (False, reason)."""
    try:
        return True, forms(spec, n, nest)
    except Reject as r:
        return False, r.reason


def is_normal(value, n, nest):
    """Structural predicate of the statement: lists holding exactly one number per target label."""
    if not isinstance(value, list):
        return False
    if nest:
        return all(isinstance(r, list) and len(r) == n and all(is_number(e) for e in r) for r in value)
    return len(value) == n and all(is_number(e) for e in value)


def same(a, b):
    """Equality of normal forms: same shape, equal numbers (1 == 1.0 is fine), no bools smuggled in."""
    if isinstance(a, list) != isinstance(b, list):
        return False
    if isinstance(a, list):
        return len(a) == len(b) and all(same(x, y) for x, y in zip(a, b))
    return is_number(a) and is_number(b) and a == b


def check_flat_ok(value, n):
    """Oracle of check_thresholds: valid iff a list of exactly n numbers."""
    return is_normal(value, n, False)


def check_nested_ok(value, n):
    """Oracle of check_nested_thresholds: valid iff a list of rows, every row exactly n numbers."""
    return is_normal(value, n, True)
