"""Coverage-guided driver (atheris / libFuzzer) for a `fuzz` sub-check.

  python -m vlib.fuzz_runner <check module> <sub-check name> <runs> <seed> <out dir>

The sub-check supplies `decode(fdp) -> descriptor` (an atheris.FuzzedDataProvider layer so that the fuzzer reaches logic
instead of dying in input validation) and the usual `body(ctx, desc)` with the semantic oracle inside the target.
libFuzzer terminates the process without running Python clean-up, so the counters are flushed to <out dir>/summary.json
every 2000 executions and on a violation; a violation also writes <out dir>/violation.json (the decoded descriptor —
the reproducible unit) before the exception reaches libFuzzer.
"""
import json
import os
import sys


def main():
    modname, subname, runs, seed, outdir = sys.argv[1], sys.argv[2], int(sys.argv[3]), int(sys.argv[4]), sys.argv[5]
    root = os.path.dirname(os.path.dirname(os.path.abspath(__file__)))
    sys.path.insert(0, root)
    sys.path.insert(0, os.path.join(root, ".deps"))
    from vlib import boot

    boot.boot()
    import atheris

    with atheris.instrument_imports(include=["perception_eval.common.threshold", "perception_eval.common.label", "perception_eval.common.schema", "perception_eval.common.evaluation_task", "perception_eval.common.shape"]):
        import importlib

        for m in ("perception_eval.common.threshold", "perception_eval.common.label", "perception_eval.common.schema", "perception_eval.common.evaluation_task", "perception_eval.common.shape"):
            if m in sys.modules:
                importlib.reload(sys.modules[m])
            else:
                importlib.import_module(m)
    from vlib import harness as H

    mod = importlib.import_module(modname)
    check = mod.CHECK
    sub = check.sub(subname)
    ctx = H.Ctx(check.pid, sub.name, "thorough", seed, 0, 1, H.load_known(check.pid))
    os.makedirs(outdir, exist_ok=True)
    corpus = os.path.join(outdir, "corpus")
    os.makedirs(corpus, exist_ok=True)
    for i, blob in enumerate(sub.kw.get("seeds", [])):
        with open(os.path.join(corpus, f"seed{i}"), "wb") as f:
            f.write(blob)

    def flush():
        with open(os.path.join(outdir, "summary.json"), "w") as f:
            json.dump(ctx.summary(), f)

    def one(data):
        fdp = atheris.FuzzedDataProvider(data)
        desc = H.jnorm(sub.kw["decode"](fdp))
        ctx.begin(desc)
        try:
            sub.body(ctx, desc)
        except H.PropertyViolation as e:
            with open(os.path.join(outdir, "violation.json"), "w") as f:
                json.dump({"sub": sub.name, "desc": desc, "signature": e.signature, "message": e.message}, f)
            flush()
            raise
        if ctx.evaluations % 2000 == 0:
            flush()

    flush()
    atheris.Setup([sys.argv[0], f"-runs={runs}", f"-seed={seed if seed else 1}", "-max_len=256", "-print_final_stats=0", "-verbosity=0", f"-artifact_prefix={outdir.rstrip('/')}/", corpus], one)
    atheris.Fuzz()


if __name__ == "__main__":
    main()
