"""Shared driver for the matcher (C01, C02, C08): descriptor -> get_object_results -> index view."""
import math

from hypothesis import strategies as st

from vlib import desc as D
from vlib import gen as GEN
from vlib import ref_geom as G

DIST_MODES = ("CENTERDISTANCE", "PLANEDISTANCE")


@st.composite
def match_cases3d(draw, tier="quick", ties=False, contest=False):
    big = tier == "thorough"
    mg = draw(st.sampled_from([4, 8, 24] if big else [3, 6, 10]))
    sc = draw(
        GEN.scenes3d(
            max_gt=mg,
            max_est=mg,
            ties=ties,
            mixed_frames=draw(st.integers(0, 4)) == 0,
            spacing=3.0 if contest else None,
            min_gt=1 if contest else 0,
            min_est=2 if contest else 0,
        )
    )
    mode = draw(GEN.modes3d())
    n = len(sc["targets"])
    radii = None
    if mode in DIST_MODES and draw(st.booleans()):
        radii = draw(GEN.per_label(n, st.sampled_from([0.4, 1.0, 2.5, 6.0, 50.0])))
    sc.update(
        {
            "dim": 3,
            "policy": draw(GEN.policies()),
            "mode": mode,
            "radii": radii,
            "task": draw(st.sampled_from(["detection", "detection", "tracking", "fp_validation"])),
        }
    )
    return sc


@st.composite
def match_cases2d(draw, tier="quick", ties=False):
    big = tier == "thorough"
    mg = draw(st.sampled_from([4, 8, 20] if big else [3, 6, 10]))
    sc = draw(GEN.scenes2d(max_gt=mg, max_est=mg, ties=ties, fam=draw(st.sampled_from(["autoware", "autoware", "tl"]))))
    mode = draw(st.sampled_from(["CENTERDISTANCE", "CENTERDISTANCE", "IOU2D"]))
    n = len(sc["targets"])
    radii = None
    if mode == "CENTERDISTANCE" and draw(st.integers(0, 2)) > 0:
        radii = draw(GEN.per_label(n, st.sampled_from([3.0, 20.0, 100.0, 500.0])))
    sc.update(
        {
            "dim": 2,
            "policy": draw(GEN.policies()),
            "mode": mode,
            "radii": radii,
            "task": draw(st.sampled_from(["detection2d", "detection2d", "tracking2d", "fp_validation2d"])),
        }
    )
    return sc


def build(d):
    """-> (estimated_objects, ground_truth_objects, transforms)"""
    if d["dim"] == 3:
        est = D.objs3d(d["est"], d["frame"], d["ego"])
        gt = D.objs3d(d["gt"], d["frame"], d["ego"])
        tr = D.transforms(d["ego"])
    else:
        est = D.objs2d(d["est"])
        gt = D.objs2d(d["gt"])
        tr = None
    return est, gt, tr


def call_matcher(ctx, d, est, gt, tr):
    from perception_eval.evaluation.result.object_result import get_object_results

    res = None
    with ctx.under_test("get_object_results"):
        res = get_object_results(
            evaluation_task=D.task(d["task"]),
            estimated_objects=est,
            ground_truth_objects=gt,
            target_labels=D.labels(d["targets"], d.get("fam", "autoware")),
            matching_label_policy=D.policy(d["policy"]),
            matching_mode=D.mode(d["mode"]),
            matchable_thresholds=d["radii"],
            transforms=tr,
        )
    return res


def index_of(obj, lst):
    for i, o in enumerate(lst):
        if o is obj:
            return i
    return None


def compatible(policy, est_label, gt_label):
    """Label compatibility, written from the statement of C02 (not from the library)."""
    if gt_label == "false_positive":
        return True
    if policy == "ALLOW_ANY":
        return True
    if policy == "ALLOW_UNKNOWN":
        return est_label == gt_label or est_label == "unknown"
    return est_label == gt_label


def obj_frame(d, o):
    if d["dim"] == 2:
        return o["cam"]
    return o.get("frame", d["frame"])


def ref_center_distance(d, e, g):
    """Reference centre distance of a same-frame pair (frame independent: rigid motion)."""
    if d["dim"] == 3:
        return math.dist(e["p"], g["p"])
    ce = (e["roi"][0] + e["roi"][2] // 2, e["roi"][1] + e["roi"][3] // 2)
    cg = (g["roi"][0] + g["roi"][2] // 2, g["roi"][1] + g["roi"][3] // 2)
    return math.dist(ce, cg)


def ref_plane_distance(e, g):
    vals = G.plane_distance(
        G.rect_corners(*D.ego_box(e)), G.rect_corners(*D.ego_box(g)), G.rect_corners(*D.ego_box(g))
    )
    return vals


def radius_for(d, g):
    if d["radii"] is None:
        return None
    if g["label"] in d["targets"]:
        return d["radii"][d["targets"].index(g["label"])]
    return None


def lib_score_matrix(ctx, d, est, gt, tr):
    """Scores of every same-frame pair computed by the library's own MatchingMethod (C06 validates these)."""
    from perception_eval.evaluation.matching.object_matching import (
        CenterDistanceMatching,
        IOU2dMatching,
        IOU3dMatching,
        PlaneDistanceMatching,
    )

    cls = {
        "CENTERDISTANCE": CenterDistanceMatching,
        "PLANEDISTANCE": PlaneDistanceMatching,
        "IOU2D": IOU2dMatching,
        "IOU3D": IOU3dMatching,
    }[d["mode"]]
    out = {}
    for i, e in enumerate(est):
        for j, g in enumerate(gt):
            if obj_frame(d, d["est"][i]) != obj_frame(d, d["gt"][j]):
                continue
            out[(i, j)] = float(cls(estimated_object=e, ground_truth_object=g, transforms=tr).value)
    return out
