"""Shared driver for the matcher (C01, C02, C08): descriptor -> get_object_results -> index view."""
import math

from hypothesis import strategies as st

from vlib import desc as D
from vlib import gen as GEN
from vlib import ref_geom as G

DIST_MODES = ("CENTERDISTANCE", "PLANEDISTANCE")


CAMS_X = ["cam_front", "cam_front_left", "cam_back", "cam_traffic_light", "cam_traffic_light_near"]


@st.composite
def match_cases3d(draw, tier="quick", ties=False, contest=False):
    big = tier == "thorough"
    mg = draw(st.sampled_from([4, 8, 24] if big else [3, 6, 10]))
    sc = draw(
        GEN.scenes3d(
            max_gt=mg,
            max_est=mg,
            ties=ties,
            mixed_frames=draw(st.integers(0, 4)) == 0,
            spacing=3.0 if contest else None,
            min_gt=1 if contest else 0,
            min_est=2 if contest else 0,
        )
    )
    mode = draw(GEN.modes3d())
    n = len(sc["targets"])
    radii = None
    if mode in DIST_MODES and draw(st.booleans()):
        # (a radius of exactly 0 is a legitimate, if extreme, setting: nothing is closer than 0, so nothing is matchable)
        radii = draw(GEN.per_label(n, st.sampled_from([0.4, 1.0, 2.5, 6.0, 50.0, 0.0])))
    sc.update(
        {
            "dim": 3,
            "policy": draw(GEN.policies()),
            "mode": mode,
            "radii": radii,
            "task": draw(st.sampled_from(["detection", "detection", "tracking", "fp_validation"])),
        }
    )
    _uuid_variants(draw, sc)
    if sc["est"] and draw(st.integers(0, 3)) == 0:
        # a second hypothesis at exactly the pose (and label) of another estimate, with another size / confidence / id: still a
        # separate estimate that must appear in exactly one result
        e = sc["est"][draw(st.integers(0, len(sc["est"]) - 1))]
        f = draw(st.sampled_from([0.8, 1.25]))
        sc["est"].append(dict(e, size=[e["size"][0] * f, e["size"][1] * f, e["size"][2]], score=max(0.001, e["score"] * 0.5 + 0.0003), uuid=(None if e.get("uuid") is None else f"e{len(sc['est'])}")))
        sc["twin_estimate"] = True
    return sc


def _uuid_variants(draw, sc):
    """Geometric matching does not depend on instance ids: detections usually carry none, hand-built ground truths may
    carry none, and one physical object annotated in several cameras shares its id."""
    how = draw(st.sampled_from(["unique", "unique", "none", "shared"]))
    sc["uuid_mode"] = how
    if how == "none":
        for o in sc["gt"] + sc["est"]:
            o["uuid"] = None
    elif how == "shared":
        for i, o in enumerate(sc["gt"]):
            o["uuid"] = f"g{i % 3}"


@st.composite
def match_cases2d(draw, tier="quick", ties=False):
    big = tier == "thorough"
    mg = draw(st.sampled_from([4, 8, 20] if big else [3, 6, 10]))
    # cameras whose names are prefixes of one another (cam_front / cam_front_left, cam_traffic_light / ..._near) are still
    # different frames
    sc = draw(GEN.scenes2d(max_gt=mg, max_est=mg, ties=ties, fam=draw(st.sampled_from(["autoware", "autoware", "tl"])), cams=CAMS_X))
    mode = draw(st.sampled_from(["CENTERDISTANCE", "CENTERDISTANCE", "IOU2D"]))
    n = len(sc["targets"])
    radii = None
    if mode == "CENTERDISTANCE" and draw(st.integers(0, 2)) > 0:
        radii = draw(GEN.per_label(n, st.sampled_from([3.0, 20.0, 100.0, 500.0, 0.0])))
    sc.update(
        {
            "dim": 2,
            "policy": draw(GEN.policies()),
            "mode": mode,
            "radii": radii,
            "task": draw(st.sampled_from(["detection2d", "detection2d", "tracking2d", "fp_validation2d"])),
        }
    )
    _uuid_variants(draw, sc)
    return sc


def build(d):
    """-> (estimated_objects, ground_truth_objects, transforms)"""
    if d["dim"] == 3:
        est = D.objs3d(d["est"], d["frame"], d["ego"])
        gt = D.objs3d(d["gt"], d["frame"], d["ego"])
        tr = D.transforms(d["ego"])
    else:
        est = D.objs2d(d["est"])
        gt = D.objs2d(d["gt"])
        tr = None
    return est, gt, tr


def call_matcher(ctx, d, est, gt, tr):
    from perception_eval.evaluation.result.object_result import get_object_results

    res = None
    with ctx.under_test("get_object_results"):
        res = get_object_results(
            evaluation_task=D.task(d["task"]),
            estimated_objects=est,
            ground_truth_objects=gt,
            target_labels=D.labels(d["targets"], d.get("fam", "autoware")),
            matching_label_policy=D.policy(d["policy"]),
            matching_mode=D.mode(d["mode"]),
            matchable_thresholds=d["radii"],
            transforms=tr,
        )
    return res


def index_of(obj, lst):
    for i, o in enumerate(lst):
        if o is obj:
            return i
    return None


def compatible(policy, est_label, gt_label):
    """Label compatibility, written from the statement of C02 (not from the library)."""
    if gt_label == "false_positive":
        return True
    if policy == "ALLOW_ANY":
        return True
    if policy == "ALLOW_UNKNOWN":
        return est_label == gt_label or est_label == "unknown"
    return est_label == gt_label


def obj_frame(d, o):
    if d["dim"] == 2:
        return o["cam"]
    return o.get("frame", d["frame"])


def ref_center_distance(d, e, g):
    """Reference centre distance of a same-frame pair (frame independent: rigid motion)."""
    if d["dim"] == 3:
        return math.dist(e["p"], g["p"])
    ce = (e["roi"][0] + e["roi"][2] // 2, e["roi"][1] + e["roi"][3] // 2)
    cg = (g["roi"][0] + g["roi"][2] // 2, g["roi"][1] + g["roi"][3] // 2)
    return math.dist(ce, cg)


def ref_plane_distance(e, g):
    vals = G.plane_distance(
        G.rect_corners(*D.ego_box(e)), G.rect_corners(*D.ego_box(g)), G.rect_corners(*D.ego_box(g))
    )
    return vals


def radius_for(d, g):
    if d["radii"] is None:
        return None
    if g["label"] in d["targets"]:
        return d["radii"][d["targets"].index(g["label"])]
    return None


def lib_score_matrix(ctx, d, est, gt, tr):
    """Scores of every same-frame pair computed by the library's own MatchingMethod (C06 validates these)."""
    from perception_eval.evaluation.matching.object_matching import (
        CenterDistanceMatching,
        IOU2dMatching,
        IOU3dMatching,
        PlaneDistanceMatching,
    )

    cls = {
        "CENTERDISTANCE": CenterDistanceMatching,
        "PLANEDISTANCE": PlaneDistanceMatching,
        "IOU2D": IOU2dMatching,
        "IOU3D": IOU3dMatching,
    }[d["mode"]]
    out = {}
    for i, e in enumerate(est):
        for j, g in enumerate(gt):
            if obj_frame(d, d["est"][i]) != obj_frame(d, d["gt"][j]):
                continue
            out[(i, j)] = float(cls(estimated_object=e, ground_truth_object=g, transforms=tr).value)
    return out


def ref_score(d, e, g):
    """Reference score(s) of a same-frame pair under d["mode"], from the descriptors only (vlib.ref_geom): a list of
    acceptable values (plane distance may have several tie-consistent values), or None when no reference applies
    (boxes with roll / pitch under an IoU mode)."""
    mode = d["mode"]
    if mode == "CENTERDISTANCE":
        return [ref_center_distance(d, e, g)]
    if d["dim"] == 2:
        from vlib import mgrlib as MG

        return [float(MG.roi_iou(e["roi"], g["roi"]))] if mode == "IOU2D" else None
    if (e.get("pr") and any(e["pr"])) or (g.get("pr") and any(g["pr"])):
        return None
    if mode == "PLANEDISTANCE":
        return list(ref_plane_distance(e, g))
    be, bg = D.ego_box(e), D.ego_box(g)
    if mode == "IOU2D":
        return [G.box_iou_bev(be, bg)]
    return [G.box_iou_3d(be, e["p"][2], e["size"][2], bg, g["p"][2], g["size"][2])]


def check_scores_against_reference(ctx, d, scores, limit=60):
    """The scores the matcher ranks by must be the true scores of the pairs (the statement's "best-scoring"): every
    candidate score of the library is compared with the reference geometry (first `limit` pairs of a case)."""
    from checks import c06

    for k, ((i, j), s) in enumerate(scores.items()):
        if k >= limit:
            break
        e, g = d["est"][i], d["gt"][j]
        ref = ref_score(d, e, g)
        if ref is None:
            continue
        tol = 1e-6 + 1e-9 * max(abs(s), 1.0)
        if any(abs(s - r) <= tol for r in ref):
            continue
        if d["dim"] == 3 and d["mode"] in ("IOU2D", "IOU3D") and c06.near_coincident(e, g):
            ctx.boundary()  # known finding D19 (C06): collinear overlapping edges
            continue
        ctx.violate(f"candidate-score-wrong:{d['mode']}", f"the matcher's {d['mode']} score of (est #{i}, GT #{j}) is {s}, the pair's true score is {ref} ({e.get('p', e.get('roi'))} / {g.get('p', g.get('roi'))})")
        return False
    return True
