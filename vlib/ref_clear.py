"""Reference CLEAR accumulator, written from the statement of C05.  Pure Python.

A history is a list of frames; a frame is a list of results; a result is a dict
  {"e": est_id, "el": est_label, "g": gt_id|None, "s": matching score|None, "ok": bool, "ev": bool}
where "ok" = (the result's own score beats the threshold AND labels are compatible) and "ev" = the
result belongs to the evaluated label (only those are counted).  Frame 0 is the initial 'previous' frame.

For each evaluated result c of frames 1..n-1, with P = the TPs (own "ok") of the previous frame:
  * c repeats the pairing (same estimated track id+label and same GT track) of some p in P  -> TP, no switch
    (open choices, both accepted: if c's own score fails it may be counted TP or FP; the score entering
     MOTP may be p's or c's);
  * otherwise TP iff c["ok"], FP otherwise; a switch iff it is a TP and some p in P shares exactly one of
    {estimated track, GT track} with it.
Returns intervals for tp / fp / score sum, the switch count, and whether the history contains an open choice.
"""


def est_track(r):
    return (r["e"], r["el"])


def accumulate(frames):
    tp_lo = tp_hi = 0
    fp_lo = fp_hi = 0
    sw = 0
    s_lo = s_hi = 0.0
    n_eval = 0
    open_choice = False
    carried = 0
    for t in range(1, len(frames)):
        prev_tp = [p for p in frames[t - 1] if p["g"] is not None and p["ok"]]
        for c in frames[t]:
            if not c["ev"]:
                continue
            n_eval += 1
            same = None
            shares_one = False
            if c["g"] is not None:
                for p in prev_tp:
                    se = est_track(p) == est_track(c)
                    sg = p["g"] == c["g"]
                    if se and sg:
                        same = p
                    elif se or sg:
                        shares_one = True
            if same is not None:
                carried += 1
                if c["ok"]:
                    tp_lo += 1
                    tp_hi += 1
                    s_lo += min(same["s"], c["s"])
                    s_hi += max(same["s"], c["s"])
                else:
                    open_choice = True
                    tp_hi += 1
                    fp_hi += 1
                    s_hi += max(same["s"], 0.0)
                    s_lo += min(same["s"], 0.0)
                continue
            if c["ok"]:
                tp_lo += 1
                tp_hi += 1
                s_lo += c["s"]
                s_hi += c["s"]
                if shares_one:
                    sw += 1
            else:
                fp_lo += 1
                fp_hi += 1
    return {
        "tp": (tp_lo, tp_hi),
        "fp": (fp_lo, fp_hi),
        "sw": sw,
        "score": (s_lo, s_hi),
        "n_eval": n_eval,
        "open": open_choice,
        "carried": carried,
    }


def mota(tp, fp, sw, num_gt):
    if num_gt == 0:
        return None
    return max(0.0, (tp - fp - sw) / num_gt)
