"""JSON descriptors -> library objects.

A 3D object descriptor is a dict (all coordinates in the *ego* frame):
  {"p":[x,y,z], "yaw":a, "qs":+1|-1, "pr":[pitch,roll]?, "size":[w,l,h], "label":"car", "score":0.9,
   "uuid":"a"?, "pts":7?, "vis":"full"?, "vel":[vx,vy,vz]?, "attrs":[..]?, "name":"vehicle.car"?, "frame":"map"? }
It is rendered into the requested frame ("base_link": as is; "map": moved by the ego pose with the
reference rigid transform of ref_geom, never with the library's own transform code).
A 2D object descriptor: {"cam":"cam_front","roi":[x,y,w,h]|None,"label":"car","fam":"autoware"|"tl",
"score":..,"uuid":..,"vis":..}.
"""
from vlib import ref_geom as G

T0 = 1_600_000_000_000_000


def _enums():
    from perception_eval.common.label import AutowareLabel, TrafficLightLabel

    return AutowareLabel, TrafficLightLabel


def label(name, fam="autoware", attrs=None, orig=None):
    from perception_eval.common.label import Label

    A, T = _enums()
    cls = A if fam == "autoware" else T
    return Label(cls(name), orig if orig is not None else name, list(attrs) if attrs else [])


def label_type(name, fam="autoware"):
    A, T = _enums()
    return (A if fam == "autoware" else T)(name)


def visibility(v):
    if v is None:
        return None
    from perception_eval.common.schema import Visibility

    return Visibility(v)


def obj_quat(o):
    pr = o.get("pr") or [0.0, 0.0]
    return G.q_from_ypr(o["yaw"], pr[0], pr[1], o.get("qs", 1))


def render_pose(o, frame, ego):
    """(position, quaternion) of descriptor `o` expressed in `frame`."""
    p = tuple(float(c) for c in o["p"])
    q = obj_quat(o)
    if frame == "map":
        tf = G.ego_tf(ego)
        qs = o.get("qs", 1)
        q2 = G.tf_apply_q(tf, q)
        # keep the requested quaternion sign convention observable in the map frame, too
        if (q2[0] < 0) != (qs < 0) and q2[0] != 0:
            q2 = G.q_neg(q2)
        return G.tf_apply(tf, p), q2
    return p, q


def obj3d(o, frame="base_link", ego=None, t=T0, fam="autoware"):
    from perception_eval.common.object import DynamicObject
    from perception_eval.common.schema import FrameID
    from perception_eval.common.shape import Shape, ShapeType
    from pyquaternion import Quaternion

    frame = o.get("frame", frame)
    p, q = render_pose(o, frame, ego)
    vel = o.get("vel")
    return DynamicObject(
        unix_time=t,
        frame_id=FrameID.MAP if frame == "map" else FrameID.BASE_LINK,
        position=tuple(p),
        orientation=Quaternion(q[0], q[1], q[2], q[3]),
        shape=Shape(ShapeType.BOUNDING_BOX, tuple(float(s) for s in o["size"])),
        velocity=tuple(vel) if vel is not None else None,
        semantic_score=float(o.get("score", 1.0)),
        semantic_label=label(o["label"], o.get("fam", fam), o.get("attrs"), o.get("name")),
        pointcloud_num=o.get("pts"),
        uuid=o.get("uuid"),
        visibility=visibility(o.get("vis")),
    )


def objs3d(lst, frame="base_link", ego=None, t=T0):
    return [obj3d(o, frame, ego, t) for o in lst]


def obj2d(o, t=T0):
    from perception_eval.common.object2d import DynamicObject2D
    from perception_eval.common.schema import FrameID

    roi = o.get("roi")
    return DynamicObject2D(
        unix_time=t,
        frame_id=FrameID.from_value(o.get("cam", "cam_front")),
        semantic_score=float(o.get("score", 1.0)),
        semantic_label=label(o["label"], o.get("fam", "autoware"), o.get("attrs"), o.get("name")),
        roi=tuple(int(v) for v in roi) if roi is not None else None,
        uuid=o.get("uuid"),
        visibility=visibility(o.get("vis")),
        position=tuple(float(c) for c in o["pos"]) if o.get("pos") is not None else None,
    )


def objs2d(lst, t=T0):
    return [obj2d(o, t) for o in lst]


def transforms(ego):
    """TransformDict holding base_link -> map for the ego pose [x, y, yaw] (or [x, y, z, yaw])."""
    from perception_eval.common.schema import FrameID
    from perception_eval.common.transform import HomogeneousMatrix, TransformDict

    (t, q) = G.ego_tf(ego)
    return TransformDict(HomogeneousMatrix(t, q, src=FrameID.BASE_LINK, dst=FrameID.MAP))


def hmatrix(ego):
    from perception_eval.common.schema import FrameID
    from perception_eval.common.transform import HomogeneousMatrix

    (t, q) = G.ego_tf(ego)
    return HomogeneousMatrix(t, q, src=FrameID.BASE_LINK, dst=FrameID.MAP)


def frame_gt(gt_descs, frame="base_link", ego=None, t=T0, name="0", with_tf=True):
    """FrameGroundTruth as the loader would build it (objects in `frame`, base_link->map transform attached).
    with_tf=False: a hand-built ego-frame ground truth without any transform (`transforms=None` is the documented default)."""
    from perception_eval.common.dataset import FrameGroundTruth

    ego = ego if ego is not None else [0.0, 0.0, 0.0]
    return FrameGroundTruth(
        unix_time=t,
        frame_name=name,
        objects=objs3d(gt_descs, frame, ego, t),
        transforms=[hmatrix(ego)] if with_tf else None,
    )


def policy(name):
    from perception_eval.evaluation.matching.object_matching import MatchingLabelPolicy

    return MatchingLabelPolicy[name]


def mode(name):
    from perception_eval.evaluation.matching.object_matching import MatchingMode

    return MatchingMode[name]


def task(name):
    from perception_eval.common.evaluation_task import EvaluationTask

    return EvaluationTask(name)


def labels(names, fam="autoware"):
    return [label_type(n, fam) for n in names]


# ---- reference-side views of a descriptor -----------------------------------------------------


def ego_box(o):
    """(x, y, yaw, w, l) of a 3D descriptor in the ego frame (yaw-only orientation)."""
    return (o["p"][0], o["p"][1], o["yaw"], o["size"][0], o["size"][1])


def snapshot3d(obj):
    """Value snapshot used to detect mutation of caller-owned objects."""
    q = obj.state.orientation
    return (
        obj.unix_time,
        str(obj.frame_id),
        tuple(float(c) for c in obj.state.position),
        (q.w, q.x, q.y, q.z),
        tuple(obj.state.size),
        obj.semantic_score,
        obj.semantic_label.label,
        obj.semantic_label.name,
        obj.uuid,
        obj.pointcloud_num,
    )


def snapshot2d(obj):
    return (
        obj.unix_time,
        str(obj.frame_id),
        obj.semantic_score,
        obj.semantic_label.label,
        obj.uuid,
        None if obj.roi is None else (tuple(obj.roi.offset), tuple(obj.roi.size)),
    )
