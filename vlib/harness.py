"""Shared machinery: sub-check registration, Hypothesis driving, sharding, verdicts, evidence.

A *check* (one per property) is a list of *sub-checks*.  A sub-check is either
  - `given`   : body(ctx, desc) driven by a Hypothesis strategy producing JSON-able descriptors,
  - `enum`    : body(ctx, desc) driven by a finite generator (exhaustive sub-domain), or
  - `machine` : a Hypothesis RuleBasedStateMachine whose rules append JSON-able ops to a log and
                whose `replay(ctx, log)` function re-executes such a log without Hypothesis.
Bodies signal a violation with ctx.violate()/ctx.require(); calls made on behalf of the property
are wrapped in ctx.under_test() so that an unexpected exception from the library is a violation,
whereas an exception anywhere else is a harness error (exit 2, never a VIOLATION line).
"""
import contextlib
import hashlib
import json
import multiprocessing
import os
import shutil
import sys
import tempfile
import time
import traceback

ROOT = os.path.dirname(os.path.dirname(os.path.abspath(__file__)))
MAX_SAMPLES = 4


class PropertyViolation(Exception):
    def __init__(self, signature, message):
        super().__init__(f"{signature}: {message}")
        self.signature = signature
        self.message = message


class HarnessError(Exception):
    pass


def canon(desc):
    return json.dumps(desc, sort_keys=True, separators=(",", ":"), allow_nan=True)


def jnorm(desc):
    """Descriptor exactly as a replay file would hold it (tuples -> lists, keys -> str)."""
    return json.loads(json.dumps(desc, allow_nan=True))


def sha(desc):
    return hashlib.sha1(canon(desc).encode()).hexdigest()


def derive_seed(base, *parts):
    h = hashlib.sha256(("|".join([str(base)] + [str(p) for p in parts])).encode()).digest()
    return int.from_bytes(h[:8], "big")


# ----------------------------------------------------------------------------------------------
# known findings
# ----------------------------------------------------------------------------------------------


def load_known(pid):
    path = os.path.join(ROOT, "known_findings.json")
    if not os.path.exists(path):
        return {}
    with open(path) as f:
        data = json.load(f)
    out = {}
    for e in data.get("known", []):
        if e.get("property") == pid:
            out[e["signature"]] = e.get("what", "")
    return out


# ----------------------------------------------------------------------------------------------
# per-(sub-check, shard) context
# ----------------------------------------------------------------------------------------------


class Ctx:
    def __init__(self, pid, sub, tier, seed, shard, nshards, known, budget_s=None):
        self.pid = pid
        self.sub = sub
        self.tier = tier
        self.seed = seed
        self.shard = shard
        self.nshards = nshards
        self.known = known
        self.evaluations = 0
        self.nontrivial = set()
        self.samples = []
        self.classes = {}
        self.known_seen = {}
        self.boundary_skipped = 0
        self.budget_skipped = 0
        self.failing = None
        self._cur = None
        self._cur_nt = False
        self.t0 = time.time()
        self.budget_s = budget_s
        self.notes = {}

    # -- case bookkeeping -------------------------------------------------------------------
    def begin(self, desc):
        self.evaluations += 1
        self._cur = desc
        self._cur_nt = False

    def mark_nontrivial(self, flag=True):
        """Declare the current case non-trivial by the property's stated rule."""
        if flag and not self._cur_nt:
            self._cur_nt = True
            h = sha(self._cur)
            if h not in self.nontrivial:
                self.nontrivial.add(h)
                if len(self.samples) < MAX_SAMPLES:
                    self.samples.append({"subcheck": self.sub, "case": self._cur})

    def cls(self, name, n=1):
        self.classes[name] = self.classes.get(name, 0) + n

    def boundary(self):
        self.boundary_skipped += 1
        self.cls("boundary_skipped")

    def over_budget(self):
        if self.budget_s is not None and time.time() - self.t0 > self.budget_s:
            self.budget_skipped += 1
            return True
        return False

    # -- verdicts ---------------------------------------------------------------------------
    def violate(self, signature, message):
        sig = signature if signature.startswith(self.pid + ":") else f"{self.pid}:{signature}"
        if sig in self.known:
            ent = self.known_seen.setdefault(sig, {"count": 0, "example": None, "message": message})
            ent["count"] += 1
            if ent["example"] is None:
                ent["example"] = self._cur
            return
        raise PropertyViolation(sig, message)

    def require(self, cond, signature, message=""):
        if not cond:
            self.violate(signature, message() if callable(message) else message)

    @contextlib.contextmanager
    def under_test(self, what, expect_raise=False):
        """Library call made on behalf of the property: an escaping exception is a violation."""
        try:
            yield
        except PropertyViolation:
            raise
        except HarnessError:
            raise
        except Exception as e:  # noqa: BLE001
            tb = traceback.extract_tb(e.__traceback__)
            where = ""
            for fr in reversed(tb):
                if "perception_eval" in fr.filename:
                    where = f"{os.path.basename(fr.filename)}:{fr.name}"
                    break
            self.violate(f"crash:{what}:{type(e).__name__}", f"{what} raised {type(e).__name__}: {e} at {where}")

    def summary(self):
        return {
            "sub": self.sub,
            "shard": self.shard,
            "evaluations": self.evaluations,
            "nontrivial": sorted(self.nontrivial),
            "samples": self.samples,
            "classes": self.classes,
            "known_seen": self.known_seen,
            "boundary_skipped": self.boundary_skipped,
            "budget_skipped": self.budget_skipped,
            "wall_s": round(time.time() - self.t0, 2),
            "notes": self.notes,
        }


# ----------------------------------------------------------------------------------------------
# check definition
# ----------------------------------------------------------------------------------------------


class Sub:
    def __init__(self, kind, name, body, **kw):
        self.kind = kind
        self.name = name
        self.body = body
        self.kw = kw


class Check:
    def __init__(self, pid, rule, assumptions=(), design_ref=""):
        self.pid = pid
        self.rule = rule
        self.assumptions = list(assumptions)
        self.subs = []
        self.design_ref = design_ref

    def given(self, name, strategy, quick, thorough, shards=16):
        """strategy: callable(tier) -> Hypothesis strategy of JSON-able descriptors."""

        def deco(fn):
            self.subs.append(Sub("given", name, fn, strategy=strategy, quick=quick, thorough=thorough, shards=shards))
            return fn

        return deco

    def enum(self, name, gen, exhaustive=True, shards=16):
        """gen: callable(tier) -> iterable of descriptors (a finite sub-domain, enumerated completely)."""

        def deco(fn):
            self.subs.append(Sub("enum", name, fn, gen=gen, exhaustive=exhaustive, shards=shards))
            return fn

        return deco

    def machine(self, name, factory, replay, quick, thorough, shards=16):
        """factory(ctx, tier) -> RuleBasedStateMachine subclass; quick/thorough = (max_examples, step_count)."""
        self.subs.append(Sub("machine", name, replay, factory=factory, quick=quick, thorough=thorough, shards=shards))

    def fuzz(self, name, decode, quick, thorough, seeds=(), shards=4):
        """Coverage-guided (atheris / libFuzzer) driving of body(ctx, desc): decode(fdp) -> descriptor; quick/thorough = -runs."""

        def deco(fn):
            self.subs.append(Sub("fuzz", name, fn, decode=decode, quick=quick, thorough=thorough, seeds=list(seeds), shards=shards))
            return fn

        return deco

    def sub(self, name):
        for s in self.subs:
            if s.name == name:
                return s
        raise HarnessError(f"no sub-check {name!r} in {self.pid}")


# ----------------------------------------------------------------------------------------------
# temp dir shared by a run (one per run; per-process sub-directories)
# ----------------------------------------------------------------------------------------------

_TMP_BASE = None


def tmp_base():
    global _TMP_BASE
    if _TMP_BASE is None:
        _TMP_BASE = os.environ.get("VERIF_TMP_BASE")
        if _TMP_BASE is None:
            _TMP_BASE = tempfile.mkdtemp(prefix="verif-run-")
            os.environ["VERIF_TMP_BASE"] = _TMP_BASE
    return _TMP_BASE


def proc_tmp():
    d = os.path.join(tmp_base(), f"p{os.getpid()}")
    os.makedirs(d, exist_ok=True)
    return d


def cleanup_tmp():
    global _TMP_BASE
    if _TMP_BASE and os.path.isdir(_TMP_BASE):
        shutil.rmtree(_TMP_BASE, ignore_errors=True)
    _TMP_BASE = None


# ----------------------------------------------------------------------------------------------
# running one (sub-check, shard)
# ----------------------------------------------------------------------------------------------


def _minimise_log(ctx, sub, log, signature, budget=40):
    """Greedy deletion of operations from a failing op log (the init op stays); keeps the same signature."""
    best = list(log)
    tries = 0
    i = len(best) - 1
    while i >= 1 and tries < budget:
        cand = best[:i] + best[i + 1 :]
        tries += 1
        c2 = Ctx(ctx.pid, ctx.sub, ctx.tier, ctx.seed, ctx.shard, ctx.nshards, ctx.known)
        c2.begin(cand)
        try:
            sub.body(c2, cand)
        except PropertyViolation as e:
            if e.signature == signature:
                best = cand
        except Exception:  # noqa: BLE001 -- a candidate that breaks the harness is simply not a reduction
            pass
        i -= 1
    return best


def _hyp_settings(n, steps=None, shrink=True):
    from hypothesis import HealthCheck, Phase, settings

    kw = dict(
        max_examples=n,
        database=None,
        deadline=None,
        derandomize=False,
        report_multiple_bugs=False,
        print_blob=False,
        phases=[Phase.generate, Phase.shrink] if shrink else [Phase.generate],
        suppress_health_check=[HealthCheck.too_slow, HealthCheck.data_too_large],
    )
    if steps is not None:
        kw["stateful_step_count"] = steps
    return settings(**kw)


def run_sub(check, sub, tier, seed, shard, nshards, known, budget_s=None):
    """Returns (summary, violation|None). Harness errors propagate as HarnessError."""
    ctx = Ctx(check.pid, sub.name, tier, seed, shard, nshards, known, budget_s)
    dseed = derive_seed(seed, check.pid, sub.name, shard)
    viol = None
    enum_viols = {}
    try:
        if sub.kind == "enum":
            # finite domain: keep going after a failure and keep one (the first) case per signature
            for i, desc in enumerate(sub.kw["gen"](tier)):
                if i % nshards != shard:
                    continue
                desc = jnorm(desc)
                ctx.begin(desc)
                try:
                    sub.body(ctx, desc)
                except PropertyViolation as e:
                    if e.signature not in enum_viols and len(enum_viols) < 8:
                        enum_viols[e.signature] = {
                            "sub": sub.name,
                            "desc": desc,
                            "signature": e.signature,
                            "message": e.message,
                        }
        elif sub.kind == "given":
            import hypothesis
            from hypothesis import given

            n = sub.kw[tier]
            if tier == "thorough":
                n = max(1, n // nshards)
            strat = sub.kw["strategy"](tier)

            @hypothesis.seed(dseed)
            @_hyp_settings(n)
            @given(strat)
            def t(desc):
                if ctx.over_budget():
                    return
                desc = jnorm(desc)
                ctx.begin(desc)
                try:
                    sub.body(ctx, desc)
                except PropertyViolation as e:
                    ctx.failing = (desc, e)
                    raise

            t()
        elif sub.kind == "machine":
            import hypothesis
            from hypothesis.stateful import run_state_machine_as_test

            n, steps = sub.kw[tier]
            if tier == "thorough":
                n = max(1, n // nshards)
            machine = sub.kw["factory"](ctx, tier)
            # Hypothesis' shrinker needs minutes on machines whose every step evaluates frames (hard 5-minute cap);
            # generation only, then a bounded greedy deletion of operations through the replay interpreter.
            run_state_machine_as_test(hypothesis.seed(dseed)(machine), settings=_hyp_settings(n, steps, shrink=False))
        elif sub.kind == "fuzz":
            return _run_fuzz(check, sub, tier, dseed, shard, nshards, ctx)
        else:
            raise HarnessError(f"unknown sub-check kind {sub.kind}")
    except PropertyViolation as e:
        desc = ctx.failing[0] if ctx.failing else ctx._cur
        if sub.kind == "machine" and isinstance(desc, list):
            desc = _minimise_log(ctx, sub, desc, e.signature)
        viol = {"sub": sub.name, "desc": desc, "signature": e.signature, "message": e.message}
    except HarnessError:
        raise
    except BaseException as e:  # noqa: BLE001
        if isinstance(e, (KeyboardInterrupt, SystemExit)):
            raise
        where = _library_frame(e)
        if where is None:
            raise HarnessError(
                f"{check.pid}/{sub.name} shard {shard}: {type(e).__name__}: {e}\n" + traceback.format_exc()
            ) from None
        # an exception that escaped from library code while the harness was turning a valid descriptor into library objects
        # (outside every `under_test` block): the library cannot even represent the input the property quantifies over
        sig = f"{check.pid}:crash:unguarded:{type(e).__name__}"
        if sig in ctx.known:
            raise HarnessError(f"{check.pid}/{sub.name}: unguarded crash listed as known finding ({sig})") from None
        viol = {"sub": sub.name, "desc": ctx._cur, "signature": sig, "message": f"{type(e).__name__}: {e} raised in {where} while building / driving library objects for a valid case"}
    viols = list(enum_viols.values()) + ([viol] if viol else [])
    return ctx.summary(), viols


def _library_frame(exc):
    """'file:function' of the innermost traceback frame that belongs to the library under test, provided no frame of the
    verification code lies deeper (then it is a harness bug); None otherwise."""
    from vlib import boot

    lib = os.path.realpath(os.path.join(boot.REPO, "perception_eval")) + os.sep
    mine = os.path.realpath(ROOT) + os.sep
    for fr in reversed(traceback.extract_tb(exc.__traceback__)):
        fn = os.path.realpath(fr.filename)
        if fn.startswith(lib):
            return f"{os.path.basename(fr.filename)}:{fr.name}"
        if fn.startswith(mine):
            return None
    return None


def _run_fuzz(check, sub, tier, dseed, shard, nshards, ctx):
    """atheris campaign in a child process (libFuzzer owns the process exit); results come back through files."""
    import subprocess

    from vlib import boot

    runs = sub.kw[tier]
    if tier == "thorough":
        runs = max(1, runs // nshards)
    summ = ctx.summary()
    if runs <= 0:
        return summ, []
    if not boot.ensure_atheris():
        summ["notes"] = {"atheris": "unavailable (offline install into .deps failed); Hypothesis sub-checks cover the same oracle"}
        return summ, []
    outdir = os.path.join(proc_tmp(), f"fuzz-{sub.name}-{shard}")
    shutil.rmtree(outdir, ignore_errors=True)
    env = dict(os.environ, PYTHONPATH=os.pathsep.join([ROOT, os.path.join(ROOT, ".deps")]))
    r = subprocess.run(
        [sys.executable, "-m", "vlib.fuzz_runner", "checks." + check.pid.lower(), sub.name, str(runs), str(dseed % (2**31 - 1) or 1), outdir],
        cwd=ROOT, env=env, capture_output=True, text=True, timeout=3600,
    )
    spath, vpath = os.path.join(outdir, "summary.json"), os.path.join(outdir, "violation.json")
    if not os.path.exists(spath):
        raise HarnessError(f"{check.pid}/{sub.name}: fuzz runner produced no summary (exit {r.returncode})\n{r.stdout[-1500:]}\n{r.stderr[-1500:]}")
    with open(spath) as f:
        summ = json.load(f)
    summ["shard"] = shard
    summ.setdefault("notes", {})["atheris"] = f"libFuzzer -runs={runs} -seed={dseed % (2**31 - 1) or 1}, exit {r.returncode}"
    viols = []
    if os.path.exists(vpath):
        with open(vpath) as f:
            viols.append(json.load(f))
    elif r.returncode != 0:
        raise HarnessError(f"{check.pid}/{sub.name}: fuzz runner exit {r.returncode} without a recorded violation\n{r.stdout[-1500:]}\n{r.stderr[-1500:]}")
    shutil.rmtree(outdir, ignore_errors=True)
    return summ, viols


def _worker(args):
    modname, subname, tier, seed, shard, nshards, budget_s = args
    try:
        import importlib

        mod = importlib.import_module(modname)
        check = mod.CHECK
        known = load_known(check.pid)
        summ, viols = run_sub(check, check.sub(subname), tier, seed, shard, nshards, known, budget_s)
        return ("ok", summ, viols)
    except HarnessError as e:
        return ("harness_error", str(e), None)
    except BaseException as e:  # noqa: BLE001
        return ("harness_error", f"{type(e).__name__}: {e}\n{traceback.format_exc()}", None)


# ----------------------------------------------------------------------------------------------
# top level
# ----------------------------------------------------------------------------------------------


def save_replay(pid, viol):
    d = os.path.join(os.environ.get("VERIF_REPLAY_DIR") or os.path.join(ROOT, "replay"), pid)
    os.makedirs(d, exist_ok=True)
    rec = {
        "property": pid,
        "subcheck": viol["sub"],
        "signature": viol["signature"],
        "message": viol["message"],
        "desc": viol["desc"],
    }
    path = os.path.join(d, sha([viol["sub"], viol["desc"]])[:16] + ".json")
    with open(path, "w") as f:
        json.dump(rec, f, indent=1, sort_keys=True)
    return path


def run_replay_file(check, path, known):
    with open(path) as f:
        rec = json.load(f)
    sub = check.sub(rec["subcheck"])
    ctx = Ctx(check.pid, sub.name, "quick", 0, 0, 1, known)
    ctx.begin(rec["desc"])
    try:
        sub.body(ctx, rec["desc"])
    except PropertyViolation as e:
        return ctx, {"sub": sub.name, "desc": rec["desc"], "signature": e.signature, "message": e.message}
    except HarnessError:
        raise
    except Exception as e:  # noqa: BLE001
        where = _library_frame(e)
        if where is None:
            raise
        return ctx, {"sub": sub.name, "desc": rec["desc"], "signature": f"{check.pid}:crash:unguarded:{type(e).__name__}", "message": f"{type(e).__name__}: {e} raised in {where} while replaying a valid case"}
    return ctx, None


def merge(summaries):
    tot = {
        "evaluations": 0,
        "nontrivial": set(),
        "samples": [],
        "classes": {},
        "known_seen": {},
        "boundary_skipped": 0,
        "budget_skipped": 0,
        "subchecks": {},
        "notes": {},
    }
    for s in summaries:
        tot["evaluations"] += s["evaluations"]
        tot["nontrivial"].update(s["sub"] + ":" + h for h in s["nontrivial"])
        tot["boundary_skipped"] += s["boundary_skipped"]
        tot["budget_skipped"] += s["budget_skipped"]
        for k, v in s["classes"].items():
            key = s["sub"] + "/" + k
            tot["classes"][key] = tot["classes"].get(key, 0) + v
        for k, v in s["known_seen"].items():
            ent = tot["known_seen"].setdefault(k, {"count": 0, "example": v["example"], "message": v["message"]})
            ent["count"] += v["count"]
        sc = tot["subchecks"].setdefault(s["sub"], {"evaluations": 0, "distinct_nontrivial": 0, "wall_s": 0.0})
        sc["evaluations"] += s["evaluations"]
        sc["distinct_nontrivial"] += len(s["nontrivial"])
        sc["wall_s"] = round(sc["wall_s"] + s["wall_s"], 2)
        for k, v in s.get("notes", {}).items():
            tot["notes"].setdefault(s["sub"] + "/" + k, v)
    # samples: spread over sub-checks
    per_sub = {}
    for s in summaries:
        per_sub.setdefault(s["sub"], []).extend(s["samples"])
    for name, lst in per_sub.items():
        tot["samples"].extend(lst[:2])
    return tot


def main(check_module, argv=None):
    import argparse

    ap = argparse.ArgumentParser()
    ap.add_argument("--tier", default=os.environ.get("VERIF_TIER", "quick"), choices=["quick", "thorough"])
    ap.add_argument("--replay", default=None)
    ap.add_argument("--only", default=None, help="run only this sub-check (debugging)")
    ap.add_argument("--jobs", type=int, default=int(os.environ.get("VERIF_JOBS", "16")))
    args = ap.parse_args(argv)
    seed = int(os.environ.get("VERIF_SEED", "1"))
    budget_s = os.environ.get("VERIF_BUDGET_S")
    budget_s = float(budget_s) if budget_s else None

    import importlib

    t0 = time.time()
    try:
        mod = importlib.import_module(check_module)
        check = mod.CHECK
        pid = check.pid
        known = load_known(pid)
    except BaseException:  # noqa: BLE001
        traceback.print_exc()
        print("HARNESS-ERROR: cannot load check", check_module)
        return 2

    try:
        if args.replay:
            ctx, viol = run_replay_file(check, args.replay, known)
            for sig, ent in ctx.known_seen.items():
                print(f"KNOWN-FINDING: property={pid} {sig}: {known.get(sig, ent['message'])}")
            if viol:
                print(f"VIOLATION property={pid} replay={os.path.abspath(args.replay)}")
                print(f"  signature: {viol['signature']}\n  message: {viol['message']}")
                return 1
            print(f"replay passes: {args.replay}")
            return 0

        summaries, violations, errors = [], [], []
        # regression tier: committed/previous replay files first
        rdir = os.path.join(ROOT, "replay", pid)
        replayed = 0
        if os.path.isdir(rdir) and not args.only:
            for fn in sorted(os.listdir(rdir)):
                if not fn.endswith(".json"):
                    continue
                path = os.path.join(rdir, fn)
                try:
                    ctx, viol = run_replay_file(check, path, known)
                except HarnessError as e:
                    errors.append(str(e))
                    continue
                replayed += 1
                s = ctx.summary()
                s["sub"] = "replay:" + s["sub"]
                summaries.append(s)
                if viol:
                    violations.append((viol, path))

        subs = [s for s in check.subs if args.only in (None, s.name)]
        tasks = []
        for s in subs:
            nsh = 1 if args.tier == "quick" else min(args.jobs, s.kw.get("shards", 16))
            for sh in range(nsh):
                tasks.append((check_module, s.name, args.tier, seed, sh, nsh, budget_s))
        if not violations:
            if args.tier == "quick" or args.jobs <= 1:
                results = []
                for t in tasks:
                    results.append(_worker(t))
            else:
                tmp_base()
                ctxm = multiprocessing.get_context("fork")
                with ctxm.Pool(min(args.jobs, len(tasks))) as pool:
                    results = list(pool.imap_unordered(_worker, tasks, chunksize=1))
            for st, a, viols in results:
                if st != "ok":
                    errors.append(a)
                    continue
                summaries.append(a)
                for viol in viols:
                    violations.append((viol, None))

        tot = merge(summaries) if summaries else None
        wall = round(time.time() - t0, 2)

        if errors and not violations:
            for e in errors:
                print("HARNESS-ERROR:", e, file=sys.stderr)
            print(f"HARNESS-ERROR: {len(errors)} error(s) in {pid}; no verdict")
            return 2

        # evidence
        if tot is not None:
            ev = {
                "property_id": pid,
                "tier": args.tier,
                "seed": seed,
                "level": "exploration",
                "coverage": {
                    "evaluations": tot["evaluations"],
                    "distinct_nontrivial": len(tot["nontrivial"]),
                    "rule": check.rule,
                    "samples": tot["samples"][:10],
                    "subchecks": tot["subchecks"],
                    "classes": tot["classes"],
                    "exhaustive_parts": [
                        {"subcheck": s.name, "cases": tot["subchecks"].get(s.name, {}).get("evaluations", 0)}
                        for s in subs
                        if s.kind == "enum" and s.kw.get("exhaustive")
                    ],
                    "exhaustive": False,
                    "boundary_skipped": tot["boundary_skipped"],
                    "budget_skipped_inconclusive": tot["budget_skipped"],
                    "replay_files_rerun": replayed,
                    "known_findings_seen": {k: v["count"] for k, v in tot["known_seen"].items()},
                    "notes": tot["notes"],
                },
                "assumptions": check.assumptions,
                "wall_s": wall,
                "violations": len(violations),
            }
            evdir = os.environ.get("VERIF_EVIDENCE_DIR") or os.path.join(ROOT, "evidence")
            os.makedirs(evdir, exist_ok=True)
            with open(os.path.join(evdir, f"{pid}.json"), "w") as f:
                json.dump(ev, f, indent=1, sort_keys=True, default=str)

        for sig, ent in (tot["known_seen"].items() if tot else []):
            print(f"KNOWN-FINDING: property={pid} {sig}: {known.get(sig) or ent['message']} (seen {ent['count']}x)")
        if violations:
            seen = set()
            for viol, path in violations:
                if path is None:
                    path = save_replay(pid, viol)
                if path in seen:
                    continue
                seen.add(path)
                print(f"VIOLATION property={pid} replay={path}")
                print(f"  subcheck: {viol['sub']}\n  signature: {viol['signature']}\n  message: {viol['message']}")
            return 1
        print(
            f"OK property={pid} tier={args.tier} seed={seed} evaluations={tot['evaluations']} "
            f"distinct_nontrivial={len(tot['nontrivial'])} wall_s={wall}"
        )
        return 0
    finally:
        cleanup_tmp()
