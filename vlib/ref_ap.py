"""Reference interpolated AP / APH with exact rational arithmetic.

Input: `ranking` = list of TP weights in descending-confidence order (Fraction in [0,1]; 0 = not a TP),
`num_gt` = number of ground truths.  Deliberately a different algorithm from the library's backward scan:

    AP = sum over distinct recall levels r_1 < r_2 < ... (r_0 = 0) of (r_k - r_{k-1}) * max{p_j : r_j >= r_k}

with p_j = cumTP_j / j and r_j = cumTP_j / num_gt.
"""
from fractions import Fraction


def pr_points(weights, num_gt):
    pts = []
    cum = Fraction(0)
    for j, w in enumerate(weights, start=1):
        cum += Fraction(w)
        p = cum / j
        r = cum / num_gt if num_gt > 0 else Fraction(0)
        pts.append((r, p))
    return pts


def interpolated_ap(weights, num_gt):
    """None = undefined (no results)."""
    if len(weights) == 0:
        return None
    pts = pr_points(weights, num_gt)
    levels = sorted({r for r, _ in pts if r > 0})
    ap = Fraction(0)
    prev = Fraction(0)
    for r in levels:
        pmax = max(p for rr, p in pts if rr >= r)
        ap += (r - prev) * pmax
        prev = r
    return ap


def mean_defined(values):
    vals = [v for v in values if v is not None]
    if not vals:
        return None
    return sum(vals, Fraction(0)) / len(vals)
