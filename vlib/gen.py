"""Hypothesis strategies producing JSON-able descriptors (see desc.py for their meaning).

Construction over rejection: ground truths sit on distinct cells of a jittered grid (precondition P1),
estimates are built *relative to* ground truths from a menu (near copy, offset around a threshold,
contested, mislabelled, flipped, clutter), so matched / contested / mislabelled / unmatched cases all
occur at useful rates without filtering.
"""
import math

from hypothesis import strategies as st

PI = math.pi
TARGETS = ["car", "bicycle", "pedestrian", "truck", "bus", "motorbike"]
ALL_AW = TARGETS + ["unknown", "animal"]
TL_TARGETS = ["traffic_light", "green", "red", "yellow", "green_left", "red_straight", "unknown"]
EPS = 1e-3


# original category names (as a dataset would carry them) and attributes per label: ground truths keep their original
# name / attributes in Label.name / Label.attributes, estimates are usually named after their label
NAMES = {
    "car": ["car", "vehicle.car", "vehicle.police"],
    "bicycle": ["bicycle", "vehicle.bicycle"],
    "pedestrian": ["pedestrian", "pedestrian.adult", "pedestrian.child"],
    "truck": ["truck", "vehicle.truck"],
    "bus": ["bus", "vehicle.bus"],
    "motorbike": ["motorbike", "vehicle.motorcycle"],
    "unknown": ["unknown", "movable_object.barrier"],
    "animal": ["animal"],
    "false_positive": ["false_positive"],
}
ATTRS = ["cycle_state.without_rider", "cycle_state.with_rider", "vehicle_state.parked", "pedestrian_state.sitting"]


def fl(lo, hi):
    return st.floats(lo, hi, allow_nan=False, allow_infinity=False, width=64)


def yaws():
    special = [0.0, PI / 2, -PI / 2, PI, -PI + EPS, PI - EPS, EPS, -EPS, PI / 4, -3 * PI / 4]
    return st.one_of(fl(-PI + 1e-9, PI), st.sampled_from(special), fl(-PI + 1e-9, PI))


def qsigns():
    return st.sampled_from([1, -1])


def sizes():
    """(w, l, h): log-uniform in [0.05, 30] per axis, mostly car/pedestrian-like."""
    typical = st.tuples(fl(0.4, 2.6), fl(0.4, 12.0), fl(0.5, 3.5))
    wide = st.tuples(fl(math.log(0.05), math.log(30.0)), fl(math.log(0.05), math.log(30.0)), fl(math.log(0.05), math.log(30.0))).map(
        lambda t: tuple(math.exp(v) for v in t)
    )
    return st.one_of(typical, typical, wide).map(list)


def ego_poses(big=True):
    near = st.tuples(fl(-50, 50), fl(-50, 50), yaws())
    far = st.tuples(fl(-1e5, 1e5), fl(-1e5, 1e5), yaws())
    return (st.one_of(near, far, far) if big else near).map(list)


def counts(lo, hi):
    """Object counts: uniform over lo..hi at generation time (st.integers is biased towards small values),
    empty lists stay reachable but rare."""
    if lo >= hi:
        return st.just(lo)
    body = st.sampled_from(list(range(max(lo, 1), hi + 1)))
    return st.one_of(body, body, body, body, body, body, body, st.integers(lo, hi)) if lo == 0 else body


def uuids(prefix, n):
    return [f"{prefix}{i}" for i in range(n)]


@st.composite
def scenes3d(
    draw,
    max_gt=8,
    max_est=8,
    targets=None,
    allow_fp_gt=True,
    allow_map=True,
    thresholds=(0.5, 1.0, 2.0, 4.0),
    ties=False,
    min_gt=0,
    min_est=0,
    spacing=None,
    unknown_est=True,
    mixed_frames=False,
    R=7,
    twins=True,
    gt_label_mix=("t", "t", "t", "t", "nt", "fp", "unk"),
):
    """A frame: ground truths on distinct grid cells, estimates relative to them. All in ego coordinates."""
    targets = targets if targets is not None else draw(st.lists(st.sampled_from(TARGETS), min_size=1, max_size=4, unique=True))
    n_gt = draw(counts(min_gt, max_gt))
    S = spacing if spacing is not None else draw(st.sampled_from([5.0, 8.0, 15.0]))
    cells = draw(
        st.lists(st.tuples(st.integers(-R, R), st.integers(-R, R)), min_size=n_gt, max_size=n_gt, unique=True)
    )
    non_targets = [l for l in TARGETS if l not in targets] or ["animal"]
    gt = []
    for i, (cx, cy) in enumerate(cells):
        lab_kind = draw(st.sampled_from([k if (k != "fp" or allow_fp_gt) else "t" for k in gt_label_mix]))
        if lab_kind == "t":
            lab = draw(st.sampled_from(targets))
        elif lab_kind == "nt":
            lab = draw(st.sampled_from(non_targets))
        elif lab_kind == "fp":
            lab = "false_positive"
        else:
            lab = "unknown"
        o = {
            # (the constant offsets keep shrunk / 'nasty' zero jitters off the symmetry axes through the ego)
            "p": [cx * S + 0.37 + draw(fl(-S / 5, S / 5)), cy * S - 0.21 + draw(fl(-S / 5, S / 5)), draw(fl(-2.0, 2.0))],
            "yaw": draw(yaws()),
            "qs": draw(qsigns()),
            "size": draw(sizes()),
            "label": lab,
            "score": 1.0,
            "uuid": f"g{i}",
            "pts": draw(st.integers(0, 40)),
        }
        if lab in NAMES and draw(st.integers(0, 2)) == 0:
            o["name"] = draw(st.sampled_from(NAMES[lab]))
            o["attrs"] = draw(st.lists(st.sampled_from(ATTRS), max_size=2, unique=True))
        gt.append(o)
    if twins and gt and (twins == "always" or draw(st.integers(0, 2)) == 0):
        # two annotations side by side (a crowd, parked bicycles): same label, size, heading and height, centres 0.4-0.95 m
        # apart -- distinct objects (P1 holds) that differ only by a small translation
        g = gt[draw(st.integers(0, len(gt) - 1))]
        off = draw(st.sampled_from([0.4, 0.6, 0.95]))
        ax = draw(st.integers(0, 1))
        t = dict(g, p=[g["p"][0] + (off if ax == 0 else 0.0), g["p"][1] + (off if ax == 1 else 0.0), g["p"][2]], uuid=f"g{len(gt)}")
        gt.append(t)
    n_est = draw(counts(min_est, max_est))
    est = []
    conf_pool = [0.3, 0.6, 0.9]
    for j in range(n_est):
        kind = draw(st.sampled_from(["near", "near", "thr", "thr", "contest", "clutter"])) if gt else "clutter"
        if kind == "clutter":
            cx, cy = draw(st.tuples(st.integers(-R - 2, R + 2), st.integers(-R - 2, R + 2)))
            p = [cx * S + S / 2 + draw(fl(-S / 8, S / 8)), cy * S + S / 2 + draw(fl(-S / 8, S / 8)), draw(fl(-2.0, 2.0))]
            yaw = draw(yaws())
            size = draw(sizes())
            lab = draw(st.sampled_from(targets + (["unknown"] if unknown_est else [])))
        else:
            if kind == "contest" and est and any("of" in e for e in est):
                k = draw(st.sampled_from([e["of"] for e in est if "of" in e]))
            else:
                k = draw(st.integers(0, len(gt) - 1))
            g = gt[k]
            if kind == "near":
                r = draw(fl(0.0, 0.3))
            else:
                t = draw(st.sampled_from(list(thresholds)))
                r = t * draw(st.sampled_from([0.55, 0.8, 0.95, 1.05, 1.2, 1.6]))
            if ties:
                r = draw(st.sampled_from([0.25, 0.5, 1.0]))
                ang = draw(st.sampled_from([0.0, PI / 2, PI, -PI / 2]))
            else:
                ang = draw(fl(-PI, PI))
            p = [g["p"][0] + r * math.cos(ang), g["p"][1] + r * math.sin(ang), g["p"][2] + draw(fl(-0.5, 0.5))]
            yk = draw(st.sampled_from(["same", "small", "flip", "rand", "perp"]))
            yaw = {
                "same": g["yaw"],
                "small": g["yaw"] + draw(fl(-0.3, 0.3)),
                "flip": g["yaw"] + PI,
                "perp": g["yaw"] + PI / 2,
                "rand": draw(yaws()),
            }[yk]
            yaw = math.atan2(math.sin(yaw), math.cos(yaw)) if yk != "same" else yaw
            sc = draw(st.sampled_from([1.0, 1.0, 0.8, 1.25]))
            size = [g["size"][0] * sc, g["size"][1] * sc, g["size"][2] * draw(st.sampled_from([1.0, 0.9, 1.2]))]
            lk = draw(st.sampled_from(["same", "same", "same", "unk" if unknown_est else "same", "other"]))
            if lk == "same" and g["label"] not in ("false_positive",):
                lab = g["label"]
            elif lk == "unk":
                lab = "unknown"
            else:
                lab = draw(st.sampled_from(targets))
        e = {
            "p": p,
            "yaw": yaw,
            "qs": draw(qsigns()),
            "size": size,
            "label": lab,
            # distinct confidences by construction unless ties are asked for (equal confidences are a ranking tie)
            "score": draw(st.sampled_from(conf_pool)) if ties else min(0.9999, draw(fl(0.01, 0.99)) + j * 1e-5),
            "uuid": f"e{j}",
        }
        if kind != "clutter":
            e["of"] = k
        est.append(e)
    for e in est:
        e.pop("of", None)
    if est and not ties and draw(st.integers(0, 3)) == 0:
        # a detector without scores / a rejected hypothesis: confidence exactly 0.0 (still the unique lowest of the frame)
        est[draw(st.integers(0, len(est) - 1))]["score"] = 0.0
    frame = draw(st.sampled_from(["base_link", "map"])) if allow_map else "base_link"
    d = {"frame": frame, "ego": draw(ego_poses()) if frame == "map" or mixed_frames else [0.0, 0.0, 0.0], "targets": targets, "gt": gt, "est": est}
    if mixed_frames:
        # some objects individually expressed in the other frame
        for o in gt + est:
            if draw(st.integers(0, 3)) == 0:
                o["frame"] = draw(st.sampled_from(["base_link", "map"]))
    return d


CAMS = ["cam_front", "cam_back", "cam_traffic_light_near"]


@st.composite
def scenes2d(draw, max_gt=8, max_est=8, targets=None, allow_fp_gt=True, cams=CAMS, ties=False, fam="autoware"):
    """ROI objects: integer (x, y, w>=1, h>=1) within 4k x 4k; estimates as perturbations of ground truths.
    fam="tl": traffic-light label family (ROI objects of traffic-light detection / tracking)."""
    TARGETS = TL_TARGETS if fam == "tl" else globals()["TARGETS"]
    targets = targets if targets is not None else draw(st.lists(st.sampled_from(TARGETS), min_size=1, max_size=4, unique=True))
    n_gt = draw(counts(0, max_gt))
    cells = draw(st.lists(st.tuples(st.integers(0, 8), st.integers(0, 8), st.integers(0, len(cams) - 1)), min_size=n_gt, max_size=n_gt, unique=True))
    non_targets = [l for l in TARGETS if l not in targets] or (["animal"] if fam != "tl" else ["red_left"])
    gt = []
    for i, (cx, cy, ci) in enumerate(cells):
        kind = draw(st.sampled_from(["t", "t", "t", "nt", "fp" if allow_fp_gt else "t", "unk"]))
        lab = {"t": None, "nt": None, "fp": "false_positive", "unk": "unknown"}[kind]
        if kind == "t":
            lab = draw(st.sampled_from(targets))
        elif kind == "nt":
            lab = draw(st.sampled_from(non_targets))
        w, h = draw(st.integers(1, 300)), draw(st.integers(1, 300))
        x, y = cx * 400 + draw(st.integers(0, 90)), cy * 400 + draw(st.integers(0, 90))
        gt.append({"cam": cams[ci], "roi": [x, y, w, h], "label": lab, "score": 1.0, "uuid": f"g{i}"})
    n_est = draw(counts(0, max_est))
    est = []
    for j in range(n_est):
        if gt and draw(st.integers(0, 5)) > 0:
            g = gt[draw(st.integers(0, len(gt) - 1))]
            x, y, w, h = g["roi"]
            if ties:
                dx, dy = draw(st.sampled_from([(-4, 0), (4, 0), (0, 4), (0, -4), (0, 0)]))
                dw = dh = 0
            else:
                m = draw(st.sampled_from([2, 10, 60, 200]))
                dx, dy = draw(st.integers(-m, m)), draw(st.integers(-m, m))
                dw, dh = draw(st.integers(-m, m)), draw(st.integers(-m, m))
            roi = [max(0, x + dx), max(0, y + dy), max(1, w + dw), max(1, h + dh)]
            cam = g["cam"] if draw(st.integers(0, 7)) > 0 else draw(st.sampled_from(cams))
            lk = draw(st.sampled_from(["same", "same", "same", "unk", "other"]))
            lab = g["label"] if (lk == "same" and g["label"] != "false_positive") else ("unknown" if lk == "unk" else draw(st.sampled_from(targets)))
        else:
            roi = [draw(st.integers(0, 3900)), draw(st.integers(0, 3900)), draw(st.integers(1, 300)), draw(st.integers(1, 300))]
            cam = draw(st.sampled_from(cams))
            lab = draw(st.sampled_from(targets + ["unknown"]))
        est.append(
            {
                "cam": cam,
                "roi": roi,
                "label": lab,
                "score": draw(st.sampled_from([0.3, 0.6, 0.9])) if ties else draw(fl(0.01, 0.99)),
                "uuid": f"e{j}",
            }
        )
    if fam != "autoware":
        for o in gt + est:
            o["fam"] = fam
    if draw(st.integers(0, 2)) == 0:
        # ROI objects that also carry a 3D position (traffic lights get one from the map); it must not influence pixel scores
        for o in gt + est:
            o["pos"] = [draw(fl(-40, 40)), draw(fl(-40, 40)), draw(fl(0, 6))]
    return {"targets": targets, "gt": gt, "est": est, "fam": fam}


def policies():
    return st.sampled_from(["DEFAULT", "ALLOW_UNKNOWN", "ALLOW_ANY"])


def modes3d():
    return st.sampled_from(["CENTERDISTANCE", "PLANEDISTANCE", "IOU2D", "IOU3D"])


def modes2d():
    return st.sampled_from(["CENTERDISTANCE", "IOU2D"])


def per_label(n, elem):
    return st.lists(elem, min_size=n, max_size=n)
