"""Reference recomputation of detection scores (Map / Ap) from the object results of evaluated frames.

Shared by C04 (frame and scene level through the manager) and C13 (scene = pooled frames).
Per-result TP classification uses the library's own pair scores (validated by C06) and heading weights (C09);
the ranking, TP/FP bookkeeping, interpolation and averaging are the exact-rational reference of ref_ap.
"""
from fractions import Fraction

from vlib import desc as D
from vlib import matchlib as ML
from vlib import ref_ap as RA

TOL = 1e-9


def weights(results, label, targets, policy, mode, thr, with_heading=True):
    """(AP weights, APH weights, confidences) of the pooled bucket in descending-confidence (stable) order."""
    from perception_eval.evaluation.metrics.detection.tp_metrics import TPMetricsAph

    dist = mode in ("CENTERDISTANCE", "PLANEDISTANCE")
    order = sorted(range(len(results)), key=lambda i: -results[i].estimated_object.semantic_score)
    w, wh, conf = [], [], []
    for i in order:
        r = results[i]
        el = r.estimated_object.semantic_label.label.value
        g = r.ground_truth_object
        gl = None if g is None else g.semantic_label.label.value
        key = gl if g is not None else el
        ok = False
        if key == label and g is not None:
            s = float(r.get_matching(D.mode(mode)).value)
            ok = ML.compatible(policy, el, gl) and (s < thr if dist else s > thr)
        w.append(1 if ok else 0)
        wh.append(float(TPMetricsAph().get_value(r)) if (ok and with_heading) else (1.0 if ok else 0.0))
        conf.append(r.estimated_object.semantic_score)
    return w, wh, conf


def bucket(results, label, targets):
    out = []
    for r in results:
        el = r.estimated_object.semantic_label.label.value
        g = r.ground_truth_object
        gl = None if g is None else g.semantic_label.label.value
        if el == label or (el not in targets and gl == label):
            out.append(r)
    return out




def check_maps(ctx, maps, frs, targets, policy, what, d=None):
    """Every Map of a MetricsScore against the reference AP of the pooled results of the frame results `frs`.
    Returns True iff all confidences within every label bucket are distinct.  With the case descriptor `d` the per-label
    thresholds are the CONFIGURED ones (mgrlib.configured_rows), otherwise those the Map was constructed with."""
    distinct_conf = True
    rows = None
    if d is not None:
        from vlib import mgrlib as MG

        rows = MG.configured_rows(ctx, d, maps, what)
    for mi, m in enumerate(maps):
        mode = m.matching_mode.name
        r_aps, r_aphs = [], []
        thr_row = rows[mi] if rows is not None and rows[mi] is not None else m.matching_threshold_list
        ctx.require(len(m.aps) == len(targets), f"{what}-ap-count", lambda: f"{what} {mode}: {len(m.aps)} Ap objects for {len(targets)} target labels")
        for L, ap, aph, thr in zip(targets, m.aps, m.aphs if m.aphs else [None] * len(m.aps), thr_row):
            ctx.require(getattr(ap, "target_labels", [None])[0].value == L if getattr(ap, "target_labels", None) else True, f"{what}-ap-label-order", lambda: f"{what} {mode}: Ap at the position of label {L} is for {ap.target_labels}")
            pooled = [r for fr in frs for r in bucket(fr.object_results, L, targets)]
            ngt = sum(1 for fr in frs for g in fr.frame_ground_truth.objects if g.semantic_label.label.value == L)
            w, wh, conf = weights(pooled, L, targets, policy, mode, thr, with_heading=bool(m.aphs))
            if len(set(conf)) < len(conf):
                distinct_conf = False
            if not pooled:
                ctx.require(ap.ap == float("inf"), f"{what}-ap-undefined", lambda: f"{what} {mode} {L}: AP {ap.ap} for an empty bucket")
                r_aps.append(None)
                r_aphs.append(None)
                continue
            ctx.require(
                ap.num_ground_truth == ngt and ap.objects_results_num == len(pooled),
                f"{what}-pool-size",
                lambda: f"{what} {mode} {L}: Ap holds {ap.objects_results_num} results / {ap.num_ground_truth} GT, the frame results hold {len(pooled)} / {ngt}",
            )
            if ngt == 0 and sum(w) > 0:
                r_aps.append(False)
                r_aphs.append(False)
                continue
            r_ap = RA.interpolated_ap(w, ngt)
            r_aph = RA.interpolated_ap([Fraction(x).limit_denominator(10**12) for x in wh], ngt)
            r_aps.append(r_ap)
            r_aphs.append(r_aph)
            ctx.require(abs(ap.ap - float(r_ap)) <= TOL, f"{what}-ap", lambda: f"{what} {mode} {L} thr {thr}: AP {ap.ap} vs reference AP of the (pooled) object results {float(r_ap)}")
            if aph is not None:
                ctx.require(abs(aph.ap - float(r_aph)) <= 1e-7, f"{what}-aph", lambda: f"{what} {mode} {L} thr {thr}: APH {aph.ap} vs reference {float(r_aph)}")
                ctx.require(aph.ap <= ap.ap + TOL and -TOL <= aph.ap and ap.ap <= 1 + TOL, f"{what}-ap-bounds", lambda: f"{what} {mode} {L}: need 0 <= APH {aph.ap} <= AP {ap.ap} <= 1")
        if False not in r_aps:
            for got, refs, nm in ((m.map, r_aps, "mAP"), (m.maph, r_aphs, "mAPH")):
                if nm == "mAPH" and not m.aphs:
                    continue
                ref = RA.mean_defined(refs)
                if ref is None:
                    ctx.require(got == float("inf"), f"{what}-map-undefined", lambda: f"{what} {mode}: {nm} {got} although no label has results")
                else:
                    ctx.require(abs(got - float(ref)) <= (TOL if nm == "mAP" else 1e-7), f"{what}-map", lambda: f"{what} {mode}: {nm} {got} vs mean of the defined reference APs {float(ref)}")
    return distinct_conf
