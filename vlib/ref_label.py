"""Reference model for label-name conversion (property C14).  Pure Python: no perception_eval import.

Labels are plain strings = the *values* of the enum members (`AutowareLabel.CAR.value == "car"`).

Sources (transcribed by hand, NOT generated from the code's pair lists):
  * /repo/docs/en/perception/label.md -- the `AutowareLabel` table, the "Merge similar labels option"
    table, and the two `TrafficLightLabel` tables (DETECTION2D/TRACKING2D and CLASSIFICATION2D);
  * the enum definitions `AutowareLabel`, `TrafficLightLabel`, `EvaluationTask` (member values, in
    definition order).

Derivation rules of the golden table  name -> label  per (family, task class, merge):
  R1 (documented)  every "support label" of the docs table maps to the label of its row, provided the
                   row's label exists in the enum;
  R2 (canonical)   every enum member that the task class can produce maps from its own value
                   (autoware: every member with at least one support label in the docs, plus FP whose
                   enum comment says "for FP validation"; `ANIMAL` has an *empty* support list in the
                   docs and "animal" is listed under UNKNOWN, so R1 wins there;
                   traffic_light/classification: every member except TRAFFIC_LIGHT, whose enum comment
                   says "except of classification"; traffic_light/detection: TRAFFIC_LIGHT, UNKNOWN, FP);
  R3 (detection)   the docs' detection table is the classification table's names, each with image
                   TRAFFIC_LIGHT, plus "traffic_light" itself, "unknown" staying UNKNOWN; so every
                   classification name (R1/R2) other than unknown/false_positive maps to TRAFFIC_LIGHT;
  R4 (merge)       merged table = MERGE applied to the images of the unmerged table (docs list
                   TRUCK/BUS -> CAR, MOTORBIKE -> BICYCLE; the second docs table is transcribed
                   separately below and cross-checked against R4 at import time);
  R5               anything else is unregistered -> UNKNOWN of the family.

Where these rules and the library disagree, the entry is listed in DISCREPANCIES together with the
other outcome that is *also accepted* (false alarms are worse than misses; the docs page is visibly
stale: it names enum members that do not exist).  Removing an entry from DISCREPANCIES makes the rule
strict again.
"""

FAMILIES = ("autoware", "traffic_light")

# EvaluationTask values in definition order
TASKS = (
    "detection",
    "tracking",
    "prediction",
    "sensing",
    "detection2d",
    "tracking2d",
    "classification2d",
    "fp_validation",
    "fp_validation2d",
)

# enum member values in definition order
AUTOWARE_MEMBERS = (
    "unknown",
    "car",
    "truck",
    "bus",
    "bicycle",
    "motorbike",
    "pedestrian",
    "animal",
    "false_positive",
)

TRAFFIC_LIGHT_MEMBERS = (
    "traffic_light",
    "green",
    "green_straight",
    "green_left",
    "green_right",
    "yellow",
    "yellow_straight",
    "yellow_left",
    "yellow_right",
    "yellow_straight_left",
    "yellow_straight_right",
    "yellow_straight_left_right",
    "red",
    "red_straight",
    "red_left",
    "red_right",
    "red_straight_left",
    "red_straight_right",
    "red_straight_left_right",
    "red_left_diagonal",
    "red_right_diagonal",
    "unknown",
    "false_positive",
)

MEMBERS = {"autoware": AUTOWARE_MEMBERS, "traffic_light": TRAFFIC_LIGHT_MEMBERS}
UNKNOWN = "unknown"
FP = "false_positive"

# docs: "AutowareLabel.TRUCK / AutowareLabel.BUS -> AutowareLabel.CAR", "AutowareLabel.MOTORBIKE -> AutowareLabel.BICYCLE"
MERGE = {"truck": "car", "bus": "car", "motorbike": "bicycle"}


def merge_label(label):
    return MERGE.get(label, label)


# ------------------------------------------------------------------------------------------------
# docs/en/perception/label.md, first table (## `AutowareLabel`)
# ------------------------------------------------------------------------------------------------
DOC_AUTOWARE = {
    "car": [
        "car",
        "vehicle.car",
        "vehicle.construction",
        "vehicle.emergency (ambulance & police)",
        "vehicle.police",
        "vehicle.fire",
        "vehicle.ambulance",
    ],
    "truck": ["truck", "vehicle.truck", "trailer", "vehicle.trailer"],
    "bus": ["bus", "vehicle.bus", "vehicle.bus (bendy & rigid)"],
    "bicycle": ["bicycle", "vehicle.bicycle"],
    "motorbike": ["motorbike", "motorcycle", "vehicle.motorcycle"],
    "pedestrian": [
        "pedestrian",
        "stroller",
        "pedestrian.adult",
        "pedestrian.child",
        "pedestrian.construction_worker",
        "pedestrian.personal_mobility",
        "pedestrian.police_officer",
        "pedestrian.stroller",
        "pedestrian.wheelchair",
    ],
    "animal": [],
    "unknown": [
        "unknown",
        "animal",
        "movable_object.barrier",
        "movable_object.debris",
        "movable_object.pushable_pullable",
        "movable_object.trafficcone",
        "movable_object.traffic_cone",
        "static_object.bicycle rack",
        "static_object.bollard",
        "static_object.forklift",
    ],
}

# docs, second table (### Merge similar labels option)
DOC_AUTOWARE_MERGED = {
    "car": [
        "car",
        "vehicle.car",
        "vehicle.construction",
        "vehicle.emergency (ambulance & police)",
        "vehicle.police",
        "vehicle.fire",
        "vehicle.ambulance",
        "truck",
        "vehicle.truck",
        "trailer",
        "vehicle.trailer",
        "bus",
        "vehicle.bus",
        "vehicle.bus (bendy & rigid)",
    ],
    "bicycle": ["bicycle", "motorcycle", "vehicle.bicycle", "motorbike", "vehicle.motorcycle"],
    "pedestrian": list(DOC_AUTOWARE["pedestrian"]),
    "animal": [],
    "unknown": list(DOC_AUTOWARE["unknown"]),
}

# docs, "For EvaluationTask.DETECTION2D and EvaluationTask.Tracking2D" (label, support label)
DOC_TL_DETECTION = [
    ("traffic_light", "traffic_light"),
    ("traffic_light", "green"),
    ("traffic_light", "red"),
    ("traffic_light", "yellow"),
    ("traffic_light", "red_straight"),
    ("traffic_light", "red_left"),
    ("traffic_light", "red_left_straight"),
    ("traffic_light", "red_right"),
    ("traffic_light", "red_right_straight"),
    ("traffic_light", "red_right_diagonal"),
    ("traffic_light", "yellow_right"),
    ("unknown", "unknown"),
]

# docs, "For EvaluationTask.CLASSIFICATION2D" (value column, support label)
DOC_TL_CLASSIFICATION = [
    ("green", "green"),
    ("red", "red"),
    ("yellow", "yellow"),
    ("red_straight", "red_straight"),
    ("red_left", "red_left"),
    ("red_left_straight", "red_left_straight"),  # TrafficLightLabel.RED_LEFT_STRAIGHT: no such member
    ("red_right", "red_right"),
    ("red_right_straight", "red_right_straight"),  # TrafficLightLabel.RED_RIGHT_STRAIGHT: no such member
    ("red_right_diagonal", "red_right_diagonal"),
    ("yellow_right", "yellow_right"),
    ("unknown", "unknown"),
]


def _flip(doc):
    out = {}
    for label, names in doc.items():
        for n in names:
            assert n not in out, f"name {n!r} listed twice in the docs table"
            out[n] = label
    return out


def _build():
    tables = {}
    status = {}

    # ---- autoware -------------------------------------------------------------------------------
    aw = _flip(DOC_AUTOWARE)  # R1
    st = {n: "documented" for n in aw}
    for label, names in DOC_AUTOWARE.items():  # R2 (members with support labels)
        if names:
            assert aw.get(label) == label, f"docs: canonical name of {label} is not its own support label"
    aw.setdefault(FP, FP)  # R2 (FP: "for FP validation")
    st.setdefault(FP, "canonical")
    assert set(aw.values()) <= set(AUTOWARE_MEMBERS)
    awm = {n: merge_label(l) for n, l in aw.items()}  # R4
    docm = _flip(DOC_AUTOWARE_MERGED)
    assert {n: l for n, l in awm.items() if n != FP} == docm, "docs merged table != MERGE(docs unmerged table)"
    tables[("autoware", "any", False)] = aw
    tables[("autoware", "any", True)] = awm
    status[("autoware", "any")] = st

    # ---- traffic light, classification ----------------------------------------------------------
    cl = {}
    stc = {}
    for label, name in DOC_TL_CLASSIFICATION:  # R1 (rows whose member exists)
        if label in TRAFFIC_LIGHT_MEMBERS:
            cl[name] = label
            stc[name] = "documented"
    for m in TRAFFIC_LIGHT_MEMBERS:  # R2
        if m == "traffic_light":
            continue
        assert cl.get(m, m) == m
        if m not in cl:
            cl[m] = m
            stc[m] = "canonical"
    # ---- traffic light, other tasks ---------------------------------------------------------------
    de = {}
    std = {}
    for label, name in DOC_TL_DETECTION:  # R1
        if name in ("red_left_straight", "red_right_straight"):
            continue  # these two names go with members that do not exist; see DISCREPANCIES
        de[name] = label
        std[name] = "documented"
    for m in ("traffic_light", UNKNOWN, FP):  # R2
        if m not in de:
            de[m] = m
            std[m] = "canonical"
    for name in cl:  # R3
        if name in (UNKNOWN, FP):
            continue
        assert de.get(name, "traffic_light") == "traffic_light"
        if name not in de:
            de[name] = "traffic_light"
            std[name] = "derived"
    for merge in (False, True):  # MERGE is the identity on traffic-light labels
        tables[("traffic_light", "classification", merge)] = cl
        tables[("traffic_light", "detection", merge)] = de
    status[("traffic_light", "classification")] = stc
    status[("traffic_light", "detection")] = std
    return tables, status


TABLES, STATUS = _build()


# ------------------------------------------------------------------------------------------------
# Disagreements between the derived tables and the library (reported; both outcomes accepted).
# (family, task class) -> name -> (also accepted label (before MERGE), reason)
# ------------------------------------------------------------------------------------------------
DISCREPANCIES = {
    ("autoware", "any"): {
        "construction_worker": (
            "pedestrian",
            "not in docs (only pedestrian.construction_worker is); the library registers the short form -> PEDESTRIAN",
        ),
    },
    ("traffic_light", "classification"): {
        "red_left_straight": (
            "red_straight_left",
            "docs row names TrafficLightLabel.RED_LEFT_STRAIGHT which does not exist (enum has RED_STRAIGHT_LEFT); "
            "the library does not register this name (-> UNKNOWN)",
        ),
        "red_right_straight": (
            "red_straight_right",
            "docs row names TrafficLightLabel.RED_RIGHT_STRAIGHT which does not exist (enum has RED_STRAIGHT_RIGHT); "
            "the library does not register this name (-> UNKNOWN)",
        ),
        "red_rightdiagonal": ("red_right_diagonal", "undocumented alias registered by the library"),
        "red_leftdiagonal": ("red_left_diagonal", "undocumented alias registered by the library"),
        "crosswalk_red": ("red", "undocumented alias registered by the library"),
        "crosswalk_green": ("green", "undocumented alias registered by the library"),
    },
    ("traffic_light", "detection"): {
        "red_left_straight": (
            "traffic_light",
            "documented -> TRAFFIC_LIGHT but the name belongs to a non-existent member; library: unregistered",
        ),
        "red_right_straight": (
            "traffic_light",
            "documented -> TRAFFIC_LIGHT but the name belongs to a non-existent member; library: unregistered",
        ),
        "yellow_straight_left_right": (
            "unknown",
            "rule R3 gives TRAFFIC_LIGHT (every other classification name does); the library's non-classification "
            "table lacks this one name (-> UNKNOWN).  Suspected omission, reported.",
        ),
        "red_rightdiagonal": ("traffic_light", "undocumented alias registered by the library"),
        "red_leftdiagonal": ("traffic_light", "undocumented alias registered by the library"),
        "crosswalk_red": ("traffic_light", "undocumented alias registered by the library"),
        "crosswalk_green": ("traffic_light", "undocumented alias registered by the library"),
    },
}
# names the library registers with the same image an unregistered name gets (unobservable, no entry needed):
#   autoware "forklift" -> UNKNOWN (docs: "static_object.forklift" -> UNKNOWN);
#   traffic_light "crosswalk_unknown" -> UNKNOWN.


def task_class(family, task):
    if family == "autoware":
        return "any"
    if family == "traffic_light":
        return "classification" if task == "classification2d" else "detection"
    raise ValueError(family)


def table(family, task, merge):
    """Golden table name(lower case) -> label value."""
    return TABLES[(family, task_class(family, task), bool(merge))]


def registered_names(family, task):
    """Names with a golden image, then the discrepancy names; deterministic order."""
    tc = task_class(family, task)
    names = list(TABLES[(family, tc, False)])
    for n in DISCREPANCIES.get((family, tc), {}):
        if n not in names:
            names.append(n)
    return names


# unregistered by rules R1-R5 (-> UNKNOWN) but worth probing in every family/task: the two names above,
# the merge docstring's "cyclist", plural / spaced forms
EXTRA_PROBE_NAMES = ("forklift", "crosswalk_unknown", "cyclist", "cars", "traffic light", "vehicle", "")


def all_names():
    """Every name of every family/task class (a name foreign to a family must give that family's UNKNOWN)."""
    out = []
    for family in FAMILIES:
        for task in ("detection", "classification2d"):
            for n in registered_names(family, task):
                if n not in out:
                    out.append(n)
    for n in EXTRA_PROBE_NAMES:
        if n not in out:
            out.append(n)
    return out


def expect(family, task, merge, lowered):
    """Oracle for an already lower-cased name.

    Returns (derived, allowed, status): `derived` = label by rules R1-R5, `allowed` = tuple of accepted
    labels (derived first), status in documented|canonical|derived|unregistered, with '+discrepancy'
    appended when a second outcome is accepted.
    """
    tc = task_class(family, task)
    t = TABLES[(family, tc, bool(merge))]
    if lowered in t:
        derived = t[lowered]
        status = STATUS[(family, tc)][lowered]
    else:
        derived = UNKNOWN
        status = "unregistered"
    allowed = [derived]
    disc = DISCREPANCIES.get((family, tc), {}).get(lowered)
    if disc is not None:
        other = merge_label(disc[0]) if merge else disc[0]
        if other not in allowed:
            allowed.append(other)
        status += "+discrepancy"
    return derived, tuple(allowed), status


def images(family, task, merge):
    """Labels the (family, task, merge) table can produce, in enum order."""
    vals = set(table(family, task, merge).values())
    return [m for m in MEMBERS[family] if m in vals]


def is_registered(family, task, lowered):
    tc = task_class(family, task)
    return lowered in TABLES[(family, tc, False)] or lowered in DISCREPANCIES.get((family, tc), {})
