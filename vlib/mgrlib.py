"""Driving a real PerceptionEvaluationManager from descriptors (C03, C07, C13, C19, parts of C01/C04/C05).

Case descriptor:
  {"task": "detection"|"tracking"|"fp_validation", "frame": "base_link"|"map", "targets": [names], "policy": ..,
   "mgr": {"kind": "xy"|"dist", "max_x": [...], "max_y": [...], "max_d": [...], "min_d": float,
           "min_pts": [...], "conf": None|[...], "radii": None|[...], "uuids": None|[...]},
   "thr": {"center": [[..]], "plane": [[..]], "iou2d": [[..]], "iou3d": [[..]]},
   "frames": [{"ego": [x,y,yaw], "gt": [obj..], "est": [obj..],
               "crit": {"kind": .., per-label lists .., "min_pts", "conf", "uuids"}, "pf": None|[per-label plane-distance thresholds]}]}
All object coordinates are ego-frame; `frame` decides how they are rendered (see desc.py).
The manager is a real one built from a real PerceptionEvaluationConfig; only the dataset *loading* in its
constructor is stubbed out (its ground_truth_frames are replaced by frames built from the descriptor anyway).
"""
import math

from hypothesis import strategies as st

from vlib import desc as D
from vlib import gen as GEN
from vlib import ref_filter as RF
from vlib import ref_geom as G
from vlib.harness import proc_tmp

SAMPLE = "/repo/perception_eval/test/sample_data"


# ------------------------------------------------------------------------------------------------
# strategies
# ------------------------------------------------------------------------------------------------


@st.composite
def range_cfg(draw, n, narrow=False, allow_conf=True, allow_uuids=False, n_gt=0):
    kind = draw(st.sampled_from(["xy", "dist"]))
    big = [18.0, 30.0, 60.0] if narrow else [45.0, 80.0, 150.0]
    c = {"kind": kind}
    if kind == "xy":
        c["max_x"] = draw(GEN.per_label(n, st.sampled_from(big)))
        c["max_y"] = draw(GEN.per_label(n, st.sampled_from(big)))
    else:
        c["max_d"] = draw(GEN.per_label(n, st.sampled_from(big)))
        c["min_d"] = draw(st.sampled_from([0.0, 0.0, 3.0, 10.0]))
    c["min_pts"] = draw(st.one_of(st.just([0] * n), st.just([0] * n), GEN.per_label(n, st.sampled_from([0, 0, 5, 20]))))
    c["conf"] = draw(st.one_of(st.none(), GEN.per_label(n, st.sampled_from([0.0, 0.2, 0.5])))) if allow_conf else None
    c["uuids"] = None
    if allow_uuids and n_gt > 0 and draw(st.integers(0, 5)) == 0:
        c["uuids"] = sorted(set(f"g{draw(st.integers(0, n_gt - 1))}" for _ in range(draw(st.integers(1, 3)))))
    return c


@st.composite
def manager_cases(draw, tier="quick", tasks=("detection", "tracking", "fp_validation"), max_frames=3, frames_fixed=None, allow_map=True, max_obj=None, crowded=False):
    """crowded=True: every frame contains two side-by-side annotations (same label / size / heading / height, centres
    < 1 m apart) with an estimate on one of them, and the ego sits at map coordinates of 5e4..1e5 m."""
    big = tier == "thorough"
    task = draw(st.sampled_from([t for t in tasks for _ in range(1 if t == "fp_validation" else 2)]))
    targets = draw(st.lists(st.sampled_from(GEN.TARGETS), min_size=1, max_size=3, unique=True))
    n = len(targets)
    frame = draw(st.sampled_from(["base_link", "map"])) if allow_map else "base_link"
    mo = max_obj or draw(st.sampled_from([6, 10, 16] if big else [4, 6, 10]))
    mgr = draw(range_cfg(n, narrow=False))
    mgr["radii"] = draw(st.one_of(st.none(), GEN.per_label(n, st.sampled_from([1.5, 3.0, 8.0, 1.5, 3.0, 8.0, 0.0]))))
    # (0 is a legitimate, if extreme, threshold: no distance beats it / any overlap beats it)
    thr = {
        "center": [draw(GEN.per_label(n, st.sampled_from([0.5, 1.0, 2.0, 0.5, 1.0, 2.0, 0.0]))) for _ in range(draw(st.integers(1, 2)))],
        "plane": [draw(GEN.per_label(n, st.sampled_from([1.0, 2.0, 3.0, 1.0, 2.0, 3.0, 0.0])))],
        "iou2d": [draw(GEN.per_label(n, st.sampled_from([0.3, 0.5, 0.7, 0.3, 0.5, 0.7, 0.0])))],
        "iou3d": [draw(GEN.per_label(n, st.sampled_from([0.2, 0.5, 0.2, 0.5, 0.2, 0.5, 0.0])))],
    }
    nf = frames_fixed or draw(st.integers(1, max_frames))
    frames = []
    for _ in range(nf):
        sc = draw(
            GEN.scenes3d(
                max_gt=mo,
                max_est=mo,
                targets=targets,
                allow_fp_gt=True,
                allow_map=False,
                min_gt=min(2, mo),
                min_est=min(2, mo),
                thresholds=(0.5, 1.0, 2.0),
                spacing=draw(st.sampled_from([5.0, 8.0])),
                R=4,
                gt_label_mix=("t", "t", "t", "t", "t", "t", "t", "nt", "fp", "unk"),
                twins="always" if crowded else True,
            )
        )
        if crowded and sc["gt"]:
            # an estimate sitting on the LAST ground truth (the added twin) so that exactly one of the two neighbours is matched
            g = sc["gt"][-1]
            sc["est"].append({"p": [g["p"][0] + 0.05, g["p"][1] - 0.03, g["p"][2]], "yaw": g["yaw"], "qs": 1, "size": list(g["size"]), "label": g["label"] if g["label"] != "false_positive" else targets[0], "score": 0.987654, "uuid": f"e{len(sc['est'])}"})
        if task == "fp_validation":
            for g in sc["gt"]:
                g["label"] = "false_positive"
        crit = draw(range_cfg(n, narrow=True, allow_uuids=True, n_gt=len(sc["gt"])))
        if n > 1 and draw(st.integers(0, 2)) == 0:
            crit["perm"] = list(draw(st.permutations(list(range(n)))))
        pf_conf = draw(GEN.per_label(n, st.sampled_from([0.0, 0.3, 0.6]))) if draw(st.integers(0, 3)) == 0 else None
        if crit["kind"] == "dist" and draw(st.integers(0, 1)) == 0:
            # an elevated / sunken annotation (with its estimates) 3 % inside or outside a distance bound in the ego's
            # ground plane: the PLANAR distance decides, the 3D range lies on the other side of the bound
            cand = [g for g in sc["gt"] if g["label"] in targets and math.hypot(g["p"][0], g["p"][1]) > 1e-3]
            if cand:
                g = cand[draw(st.integers(0, len(cand) - 1))]
                li = targets.index(g["label"])
                use_min = crit["min_d"] > 0 and draw(st.booleans())
                b = crit["min_d"] if use_min else crit["max_d"][li]
                r0 = math.hypot(g["p"][0], g["p"][1])
                k = (b * 0.97) / r0
                dz = draw(st.sampled_from([1, -1])) * (0.3 * b + 0.5)
                dx, dy = g["p"][0] * (k - 1), g["p"][1] * (k - 1)
                for o in [g] + [e for e in sc["est"] if math.dist(e["p"][:2], g["p"][:2]) < 2.5]:
                    o["p"] = [o["p"][0] + dx, o["p"][1] + dy, o["p"][2] + dz]
        pf = draw(st.one_of(st.none(), GEN.per_label(n, st.sampled_from([0.6, 1.2, 2.5, 0.6, 1.2, 2.5, 0.0]))))
        # track ids are unique per frame: frames are independent scenes, and a ground-truth instance never changes its
        # category between frames of a dataset (consistent multi-frame tracks are generated by checks/c05.tracking_histories)
        fi = len(frames)
        for g in sc["gt"]:
            g["uuid"] = f"g{fi}_{g['uuid'][1:]}"
        for e in sc["est"]:
            e["uuid"] = f"e{fi}_{e['uuid'][1:]}"
            e["score"] = min(0.99999, e["score"] + fi * 1.3e-6)  # keeps confidences distinct across frames, too
        if crit.get("uuids"):
            crit["uuids"] = [f"g{fi}_{u[1:]}" for u in crit["uuids"]]
        if fi == 0 and mgr.get("conf") is None and crit.get("conf") is None and sc["est"] and draw(st.booleans()):
            # no confidence filter anywhere: an estimate with confidence exactly 0.0 (detector without scores) is an ordinary
            # result and takes the last rank
            cand = [e for e in sc["est"] if e["label"] in targets] or sc["est"]
            cand[draw(st.integers(0, len(cand) - 1))]["score"] = 0.0
        ego = draw(GEN.ego_poses())
        if crowded:
            ego = [draw(st.sampled_from([1, -1])) * draw(GEN.fl(5e4, 1e5)), draw(st.sampled_from([1, -1])) * draw(GEN.fl(5e4, 1e5)), ego[2]]
        frames.append({"ego": ego, "gt": sc["gt"], "est": sc["est"], "crit": crit, "pf": pf, "pf_conf": pf_conf})
    return {
        "task": task,
        "frame": frame,
        "targets": targets,
        "policy": draw(GEN.policies()),
        "mgr": mgr,
        "thr": thr,
        "frames": frames,
    }


def with_uuid_variants(cases):
    """Detection does not need instance ids: the same cases also with uuid-less objects (detections usually have none,
    hand-built ground truths may have none) or with ids shared between annotations; uuid filters are switched off then.
    Only for checks that identify objects by identity, not by uuid."""

    def strip_ids(t):
        d, how = t
        if d["task"] == "detection" and how != "keep":
            d["mgr"]["uuids"] = None
            for f in d["frames"]:
                f["crit"]["uuids"] = None
                for i, o in enumerate(f["gt"]):
                    o["uuid"] = None if how == "none" else f"shared{i % 2}"
                for o in f["est"]:
                    o["uuid"] = None
            d["uuid_mode"] = how
        return d

    return st.tuples(cases, st.sampled_from(["keep", "keep", "none", "shared"])).map(strip_ids)


# ------------------------------------------------------------------------------------------------
# building
# ------------------------------------------------------------------------------------------------


def config_dict(d):
    m = d["mgr"]
    cfg = {
        "evaluation_task": d["task"],
        "target_labels": list(d["targets"]),
        "label_prefix": "autoware",
        "merge_similar_labels": False,
        "matching_label_policy": d["policy"].lower(),
        "min_point_numbers": list(m["min_pts"]),
        "center_distance_thresholds": d["thr"]["center"],
        "plane_distance_thresholds": d["thr"]["plane"],
        "iou_2d_thresholds": d["thr"]["iou2d"],
        "iou_3d_thresholds": d["thr"]["iou3d"],
    }
    if m["kind"] == "xy":
        cfg["max_x_position"] = list(m["max_x"])
        cfg["max_y_position"] = list(m["max_y"])
    else:
        cfg["max_distance"] = list(m["max_d"])
        cfg["min_distance"] = m["min_d"]
    if m.get("conf") is not None:
        cfg["confidence_threshold"] = list(m["conf"])
    if m.get("radii") is not None:
        cfg["max_matchable_radii"] = list(m["radii"])
    if m.get("uuids") is not None:
        cfg["target_uuids"] = list(m["uuids"])
    return cfg


MODE_KEY = {"CENTERDISTANCE": "center", "PLANEDISTANCE": "plane", "IOU2D": "iou2d", "IOU3D": "iou3d"}


def configured_rows(ctx, d, scores, what, expect=True):
    """The CONFIGURED per-label threshold row behind each Map / TrackingMetricsScore of a MetricsScore (the k-th score
    of a matching mode belongs to the k-th row configured for that mode).  The thresholds the reference models use come
    from the configuration descriptor, never from the library's score objects; the score objects must carry them too."""
    seen, out = {}, []
    for sc in scores:
        mode = sc.matching_mode.name
        k = seen.get(mode, 0)
        seen[mode] = k + 1
        rows = d["thr"].get(MODE_KEY[mode], [])
        if k >= len(rows):
            ctx.violate(f"{what}-unconfigured-score", f"{what}: {k + 1} scores for matching mode {mode} but only {len(rows)} threshold rows were configured")
            out.append(None)
            continue
        row = [float(t) for t in rows[k]]
        got = getattr(sc, "matching_threshold_list", None)
        if got is not None:
            ctx.require([float(t) for t in got] == row, f"{what}-thresholds-not-as-configured", lambda: f"{what}: {mode} score #{k} carries thresholds {list(got)}, configured per-label row {row}")
        out.append(row)
    for mode, key in MODE_KEY.items() if expect else ():
        ctx.require(seen.get(mode, 0) == len(d["thr"].get(key, [])), f"{what}-score-count", lambda: f"{what}: {seen.get(mode, 0)} scores for {mode}, {len(d['thr'].get(key, []))} configured threshold rows")
    return out


def make_manager(d, frame=None):
    import perception_eval.manager._evaluation_manager_base as B
    from perception_eval.config import PerceptionEvaluationConfig
    from perception_eval.manager import PerceptionEvaluationManager

    cfg = PerceptionEvaluationConfig(
        dataset_paths=[SAMPLE],
        frame_id=frame or d["frame"],
        result_root_directory=proc_tmp(),
        evaluation_config_dict=config_dict(d),
    )
    orig = B.load_all_datasets
    B.load_all_datasets = lambda **kw: []
    try:
        mgr = PerceptionEvaluationManager(cfg)
    finally:
        B.load_all_datasets = orig
    return mgr


def crit_config(mgr, d, f):
    from perception_eval.evaluation.result.perception_frame_config import CriticalObjectFilterConfig

    c = f["crit"]
    n = len(d["targets"])
    # "perm": the same filter written with its labels (and every per-label list) in another order
    perm = c.get("perm") or list(range(n))
    P = lambda lst: [lst[k] for k in perm]  # noqa: E731
    kw = {}
    if c["kind"] == "xy":
        kw.update(max_x_position_list=P(list(c["max_x"])), max_y_position_list=P(list(c["max_y"])))
    else:
        kw.update(max_distance_list=P(list(c["max_d"])), min_distance_list=[c["min_d"]] * n)
    return CriticalObjectFilterConfig(
        evaluator_config=mgr.evaluator_config,
        target_labels=P(list(d["targets"])),
        min_point_numbers=P(list(c["min_pts"])) if c.get("min_pts") is not None else None,
        confidence_threshold_list=P(list(c["conf"])) if c.get("conf") is not None else None,
        target_uuids=list(c["uuids"]) if c.get("uuids") is not None else None,
        **kw,
    )


def pf_config(mgr, d, f):
    from perception_eval.evaluation.result.perception_frame_config import PerceptionPassFailConfig

    labels, thr = list(d["targets"]), list(f["pf"]) if f["pf"] is not None else None
    if thr is not None and f.get("pf_fp") is not None:
        # pass/fail configuration that also names `false_positive` with its own threshold (FP validation): an estimate
        # within that distance of an FP-labelled ground truth is an FP *with* ground truth, beyond it the GT is a TN
        labels.append("false_positive")
        thr.append(float(f["pf_fp"]))
    conf = None
    if f.get("pf_conf") is not None:
        # the pass/fail configuration also accepts a per-label confidence list
        conf = list(f["pf_conf"]) + ([0.0] if len(labels) > len(f["pf_conf"]) else [])
    return PerceptionPassFailConfig(
        evaluator_config=mgr.evaluator_config,
        target_labels=labels,
        matching_threshold_list=thr,
        confidence_threshold_list=conf,
    )


def build_gt_frames(d, frame=None):
    frame = frame or d["frame"]
    out = []
    for i, f in enumerate(d["frames"]):
        # (d["bl_no_tf"]: ego-frame ground truths handed over without an ego pose — base_link objects need none)
        # (d["names_restart"]: frame names are not unique — several dataset paths each restart at "0", hand-built frames)
        out.append(D.frame_gt(f["gt"], frame, f["ego"], t=D.T0 + i * 100_000, name=str(i % 2) if d.get("names_restart") else str(i), with_tf=not (d.get("bl_no_tf") and frame == "base_link")))
    return out


def run_case(ctx, d, frame=None, what="add_frame_result"):
    """Installs the descriptor's frames as the manager's dataset and evaluates them in order.
    Returns dict(mgr, gt_frames, est_lists, results) or None if the library crashed (reported through ctx)."""
    frame = frame or d["frame"]
    mgr = make_manager(d, frame)
    gt_frames = build_gt_frames(d, frame)
    mgr.ground_truth_frames = gt_frames
    est_lists, results = [], []
    # every frame's critical filter / pass-fail configuration is prepared up front (several configuration objects are
    # alive at once; each frame must be judged by ITS configuration, not by the one constructed last)
    crits, pfs = None, None
    with ctx.under_test("CriticalObjectFilterConfig / PerceptionPassFailConfig"):
        crits = [crit_config(mgr, d, f) for f in d["frames"]]
        pfs = [pf_config(mgr, d, f) for f in d["frames"]]
    if crits is None or pfs is None:
        return None
    for i, f in enumerate(d["frames"]):
        t = D.T0 + i * 100_000
        ests = D.objs3d(f["est"], frame, f["ego"], t)
        est_lists.append(ests)
        res = None
        with ctx.under_test(what):
            now = mgr.get_ground_truth_now_frame(t)
            if now is not gt_frames[i]:
                ctx.violate("lookup-wrong-frame", f"get_ground_truth_now_frame({t}) did not return frame {i}")
                return None
            res = mgr.add_frame_result(
                unix_time=t,
                ground_truth_now_frame=now,
                estimated_objects=list(ests),
                critical_object_filter_config=crits[i],
                frame_pass_fail_config=pfs[i],
            )
        if res is None:
            return None
        results.append(res)
    return {"mgr": mgr, "gt_frames": gt_frames, "est_lists": est_lists, "results": results}


# ------------------------------------------------------------------------------------------------
# reference side
# ------------------------------------------------------------------------------------------------


def view(o):
    """Reference view of an object descriptor for ref_filter (ego-frame coordinates by construction)."""
    return {
        "label": o["label"],
        "x": o["p"][0],
        "y": o["p"][1],
        "score": o.get("score", 1.0),
        "pts": o.get("pts"),
        "uuid": o.get("uuid"),
        "name": o.get("name", o["label"]),
        "attrs": o.get("attrs") or [],
    }


def crit_criteria(d, c):
    n = len(d["targets"])
    out = {"targets": list(d["targets"]), "min_pts": c.get("min_pts"), "conf": c.get("conf"), "uuids": c.get("uuids")}
    if c["kind"] == "xy":
        out.update(max_x=c["max_x"], max_y=c["max_y"])
    else:
        out.update(max_d=c["max_d"], min_d=[c["min_d"]] * n)
    return out


def mgr_criteria(d):
    m = d["mgr"]
    n = len(d["targets"])
    out = {"targets": list(d["targets"]), "min_pts": m.get("min_pts"), "conf": m.get("conf"), "uuids": m.get("uuids")}
    if m["kind"] == "xy":
        out.update(max_x=m["max_x"], max_y=m["max_y"])
    else:
        out.update(max_d=m["max_d"], min_d=[m["min_d"]] * n)
    return out


def ref_plane_distance(e, g):
    return G.plane_distance(G.rect_corners(*D.ego_box(e)), G.rect_corners(*D.ego_box(g)), G.rect_corners(*D.ego_box(g)))


def index_of(obj, lst):
    for i, o in enumerate(lst):
        if o is obj:
            return i
    return None


# ------------------------------------------------------------------------------------------------
# summaries of frame results (index based, so that two executions can be compared)
# ------------------------------------------------------------------------------------------------


def _f(x):
    if x is None:
        return None
    x = float(x)
    return x


def _sorted(it):
    """Sorted indices; an object that is not one of the inputs (index None) sorts last instead of breaking the summary — the
    comparison with the expectation then reports it."""
    return sorted(it, key=lambda x: (x is None, x if x is not None else 0))


def summarize_frame(res, ests_in, gts_in):
    """Index-based, order-insensitive summary of one PerceptionFrameResult."""
    pf = res.pass_fail_result

    def ei(o):
        return index_of(o, ests_in)

    def gi(o):
        return None if o is None else index_of(o, gts_in)

    pairs = {}
    for r in res.object_results:
        pairs[ei(r.estimated_object)] = {
            "gt": gi(r.ground_truth_object),
            "cd": _f(r.center_distance.value) if r.center_distance is not None else None,
            "pd": _f(r.plane_distance.value) if r.plane_distance is not None else None,
            "iou2": _f(r.iou_2d.value) if r.iou_2d is not None else None,
            "iou3": _f(r.iou_3d.value) if r.iou_3d is not None else None,
        }
    s = {
        "pairs": pairs,
        "crit_gt": _sorted(gi(g) for g in res.frame_ground_truth.objects),
        "tp": _sorted(ei(r.estimated_object) for r in pf.tp_object_results),
        "fp": _sorted(ei(r.estimated_object) for r in pf.fp_object_results),
        "fn": _sorted(gi(g) for g in pf.fn_objects),
        "tn": _sorted(gi(g) for g in pf.tn_objects),
        "maps": summarize_score(res.metrics_score)["maps"],
        "tracking": summarize_score(res.metrics_score)["tracking"],
        "num_gt": res.metrics_score.num_ground_truth,
    }
    return s


def summarize_score(ms):
    maps = []
    for m in ms.maps:
        maps.append(
            {
                "mode": m.matching_mode.name,
                "thr": [float(t) for t in m.matching_threshold_list],
                "ap": [_f(a.ap) for a in m.aps],
                "aph": [_f(a.ap) for a in m.aphs],
                "map": _f(m.map),
                "maph": _f(m.maph),
                "n": [a.objects_results_num for a in m.aps],
                "ngt": [a.num_ground_truth for a in m.aps],
            }
        )
    tr = []
    for t in ms.tracking_scores:
        mota, motp, idsw = t._sum_clear()
        tr.append(
            {
                "mode": t.matching_mode.name,
                "mota": _f(mota),
                "motp": _f(motp),
                "idsw": int(idsw),
                "clears": [
                    {"tp": _f(c.tp), "fp": _f(c.fp), "idsw": int(c.id_switch), "mota": _f(c.mota), "motp": _f(c.motp), "ngt": c.num_ground_truth}
                    for c in t.clears
                ],
            }
        )
    return {"maps": maps, "tracking": tr, "num_gt": ms.num_ground_truth}


def feq(a, b, tol):
    if a is None or b is None:
        return a is None and b is None
    if math.isinf(a) or math.isinf(b):
        return a == b
    return abs(a - b) <= tol


def compare_summaries(ctx, a, b, what, tol=1e-6, score_tol=None, decisions=True, metrics=True):
    """Violations (prefixed by `what`) for every difference between two frame summaries."""
    score_tol = score_tol or {"cd": tol, "pd": tol, "iou2": tol, "iou3": tol}
    if decisions:
        ctx.require(a["crit_gt"] == b["crit_gt"], f"{what}:critical-gt-differ", lambda: f"critical GTs {a['crit_gt']} vs {b['crit_gt']}")
        ka, kb = sorted(a["pairs"], key=str), sorted(b["pairs"], key=str)
        ctx.require(ka == kb, f"{what}:kept-estimates-differ", lambda: f"evaluated estimates {ka} vs {kb}")
        same_pairing = ka == kb and all(a["pairs"][k]["gt"] == b["pairs"][k]["gt"] for k in ka)
        ctx.require(same_pairing, f"{what}:pairing-differs", lambda: f"{ {k: a['pairs'][k]['gt'] for k in ka} } vs { {k: b['pairs'][k]['gt'] for k in kb} }")
        if same_pairing:
            for k in ka:
                for key, t in score_tol.items():
                    ctx.require(
                        feq(a["pairs"][k][key], b["pairs"][k][key], t),
                        f"{what}:score-differs:{key}",
                        lambda: f"estimate #{k}: {key} {a['pairs'][k][key]} vs {b['pairs'][k][key]}",
                    )
        for key in ("tp", "fp", "fn", "tn"):
            ctx.require(a[key] == b[key], f"{what}:{key}-set-differs", lambda: f"{key}: {a[key]} vs {b[key]}")
        ctx.require(a["num_gt"] == b["num_gt"], f"{what}:num-gt-differs", lambda: f"{a['num_gt']} vs {b['num_gt']}")
        if metrics:
            compare_scores(ctx, a, b, what, tol)


def compare_scores(ctx, a, b, what, tol=1e-6):
    ctx.require(len(a["maps"]) == len(b["maps"]) and len(a["tracking"]) == len(b["tracking"]), f"{what}:score-shape", "number of Map / tracking scores differs")
    for ma, mb in zip(a["maps"], b["maps"]):
        for key in ("ap", "aph"):
            ok = len(ma[key]) == len(mb[key]) and all(feq(x, y, tol) for x, y in zip(ma[key], mb[key]))
            ctx.require(ok, f"{what}:{key}-differs", lambda: f"{ma['mode']} {ma['thr']}: {key} {ma[key]} vs {mb[key]}")
        for key in ("map", "maph"):
            ctx.require(feq(ma[key], mb[key], tol), f"{what}:{key}-differs", lambda: f"{ma['mode']} {ma['thr']}: {key} {ma[key]} vs {mb[key]}")
    for ta, tb in zip(a["tracking"], b["tracking"]):
        ctx.require(ta["idsw"] == tb["idsw"], f"{what}:id-switch-differs", lambda: f"{ta['mode']}: {ta['idsw']} vs {tb['idsw']}")
        for key in ("mota", "motp"):
            ctx.require(feq(ta[key], tb[key], tol), f"{what}:{key}-differs", lambda: f"{ta['mode']}: {key} {ta[key]} vs {tb[key]}")
        for ca, cb in zip(ta["clears"], tb["clears"]):
            ctx.require(
                feq(ca["tp"], cb["tp"], tol) and feq(ca["fp"], cb["fp"], tol) and ca["idsw"] == cb["idsw"],
                f"{what}:clear-counts-differ",
                lambda: f"{ta['mode']}: {ca} vs {cb}",
            )


# ------------------------------------------------------------------------------------------------
# decision margins of a case (reference geometry): is any decision within `eps` of its boundary?
# ------------------------------------------------------------------------------------------------


def ref_pair_scores(e, g):
    be, bg = D.ego_box(e), D.ego_box(g)
    return {
        "cd": math.dist(e["p"], g["p"]),
        "pd": ref_plane_distance(e, g),
        "iou2": G.box_iou_bev(be, bg),
        "iou3": G.box_iou_3d(be, e["p"][2], e["size"][2], bg, g["p"][2], g["size"][2]),
    }


def frame_margin(d, f, eps=1e-6):
    """Smallest margin of any range / radius / threshold / tie decision in this frame (reference geometry).
    Conservative: considers every (estimate, GT) pair within 15 m, not only the matched ones."""
    m = float("inf")
    mc, cc = mgr_criteria(d), crit_criteria(d, f["crit"])
    for o in f["gt"]:
        for c in (mc, cc):
            m = min(m, RF.keep_object(view(o), True, {k: c.get(k) for k in RF.GT_KEYS})[1])
    for o in f["est"]:
        for c in (mc, cc):
            m = min(m, RF.keep_object(view(o), False, {k: c.get(k) for k in RF.EST_KEYS})[1])
    thr_cd = {t for row in d["thr"]["center"] for t in row}
    if d["mgr"].get("radii"):
        thr_cd |= set(d["mgr"]["radii"])
    thr_pd = {t for row in d["thr"]["plane"] for t in row} | (set(f["pf"]) if f["pf"] else set())
    thr_i2 = {t for row in d["thr"]["iou2d"] for t in row}
    thr_i3 = {t for row in d["thr"]["iou3d"] for t in row}
    by_e, by_g = {}, {}
    for ie, e in enumerate(f["est"]):
        for ig, g in enumerate(f["gt"]):
            cd = math.dist(e["p"], g["p"])
            if cd > 15.0:
                continue
            by_e.setdefault(ie, []).append(cd)
            by_g.setdefault(ig, []).append(cd)
            s = ref_pair_scores(e, g)
            # a threshold of exactly 0 gives the same answer in every frame: no distance is < 0, and clearly disjoint
            # boxes have an IoU of exactly 0.0 (empty intersection), which is not > 0
            disjoint = False
            if s["iou2"] == 0.0:
                pe, pg = G.rect_corners(*D.ego_box(e)), G.rect_corners(*D.ego_box(g))
                gap = min(min(G.dist_point_polygon_boundary(v, pg) for v in pe), min(G.dist_point_polygon_boundary(v, pe) for v in pg))
                disjoint = gap > 1e-3
            for t in thr_cd:
                if t != 0.0:
                    m = min(m, abs(s["cd"] - t))
            if len(s["pd"]) > 1:
                m = 0.0
            for t in thr_pd:
                if t != 0.0:
                    m = min(m, min(abs(v - t) for v in s["pd"]))
            for t in thr_i2:
                if not (t == 0.0 and disjoint):
                    m = min(m, abs(s["iou2"] - t))
            for t in thr_i3:
                if not (t == 0.0 and disjoint):
                    m = min(m, abs(s["iou3"] - t))
    # ties between candidate pairs that share an estimate or a ground truth (others cannot change the assignment)
    for cds in list(by_e.values()) + list(by_g.values()):
        cds.sort()
        for x, y in zip(cds, cds[1:]):
            m = min(m, y - x)
    return m


# ------------------------------------------------------------------------------------------------
# 2D pipeline (ROI objects, camera frames)
# ------------------------------------------------------------------------------------------------


@st.composite
def manager_cases2d(draw, tier="quick", tasks=("detection2d", "tracking2d", "fp_validation2d"), max_frames=3):
    task = draw(st.sampled_from([t for t in tasks for _ in range(1 if t.startswith("fp_") else 2)]))
    targets = draw(st.lists(st.sampled_from(GEN.TARGETS), min_size=1, max_size=3, unique=True))
    n = len(targets)
    mo = draw(st.sampled_from([6, 10, 16] if tier == "thorough" else [4, 6, 10]))
    mgr = {
        "conf": draw(st.one_of(st.none(), GEN.per_label(n, st.sampled_from([0.0, 0.2, 0.5])))),
        "radii": draw(st.one_of(st.none(), GEN.per_label(n, st.sampled_from([20.0, 80.0, 400.0])))),
        "uuids": None,
    }
    thr = {
        "center": [draw(GEN.per_label(n, st.sampled_from([10.0, 50.0, 200.0])))],
        "iou2d": [draw(GEN.per_label(n, st.sampled_from([0.3, 0.5, 0.7])))],
    }
    frames = []
    for fi in range(draw(st.integers(1, max_frames))):
        sc = draw(GEN.scenes2d(max_gt=mo, max_est=mo, targets=targets, allow_fp_gt=True))
        if task == "fp_validation2d":
            for g in sc["gt"]:
                g["label"] = "false_positive"
        for g in sc["gt"]:
            g["uuid"] = f"g{fi}_{g['uuid'][1:]}"
            g.pop("pos", None)  # positioned ROI objects need camera->base_link transforms in the frame; not modelled here
        for e in sc["est"]:
            e["uuid"] = f"e{fi}_{e['uuid'][1:]}"
            e.pop("pos", None)
        crit = {"conf": draw(st.one_of(st.none(), GEN.per_label(n, st.sampled_from([0.0, 0.3, 0.6])))), "uuids": None}
        if sc["gt"] and draw(st.integers(0, 5)) == 0:
            crit["uuids"] = sorted({sc["gt"][draw(st.integers(0, len(sc["gt"]) - 1))]["uuid"] for _ in range(draw(st.integers(1, 3)))})
        pf = draw(st.one_of(st.none(), GEN.per_label(n, st.sampled_from([0.2, 0.5, 0.8]))))
        frames.append({"gt": sc["gt"], "est": sc["est"], "crit": crit, "pf": pf})
    return {"task": task, "frame": "cameras", "targets": targets, "policy": draw(GEN.policies()), "mgr": mgr, "thr": thr, "frames": frames}


def make_manager2d(d):
    import perception_eval.manager._evaluation_manager_base as B
    from perception_eval.config import PerceptionEvaluationConfig
    from perception_eval.manager import PerceptionEvaluationManager

    cfg = {
        "evaluation_task": d["task"],
        "target_labels": list(d["targets"]),
        "label_prefix": "autoware",
        "merge_similar_labels": False,
        "matching_label_policy": d["policy"].lower(),
        "center_distance_thresholds": d["thr"]["center"],
        "iou_2d_thresholds": d["thr"]["iou2d"],
    }
    if d["mgr"].get("conf") is not None:
        cfg["confidence_threshold"] = list(d["mgr"]["conf"])
    if d["mgr"].get("radii") is not None:
        cfg["max_matchable_radii"] = list(d["mgr"]["radii"])
    c = PerceptionEvaluationConfig(dataset_paths=[SAMPLE], frame_id=list(GEN.CAMS), result_root_directory=proc_tmp(), evaluation_config_dict=cfg)
    orig = B.load_all_datasets
    B.load_all_datasets = lambda **kw: []
    try:
        mgr = PerceptionEvaluationManager(c)
    finally:
        B.load_all_datasets = orig
    return mgr


def run_case2d(ctx, d, what="add_frame_result(2D)"):
    from perception_eval.common.dataset import FrameGroundTruth
    from perception_eval.evaluation.result.perception_frame_config import CriticalObjectFilterConfig, PerceptionPassFailConfig

    mgr = make_manager2d(d)
    gt_frames = [FrameGroundTruth(D.T0 + i * 100_000, str(i), D.objs2d(f["gt"], D.T0 + i * 100_000)) for i, f in enumerate(d["frames"])]
    mgr.ground_truth_frames = gt_frames
    est_lists, results = [], []
    crits, pfs = [], []
    with ctx.under_test("CriticalObjectFilterConfig / PerceptionPassFailConfig (2D)"):
        for f in d["frames"]:  # all configurations prepared up front, see run_case
            crits.append(
                CriticalObjectFilterConfig(
                    evaluator_config=mgr.evaluator_config,
                    target_labels=list(d["targets"]),
                    confidence_threshold_list=list(f["crit"]["conf"]) if f["crit"].get("conf") is not None else None,
                    target_uuids=list(f["crit"]["uuids"]) if f["crit"].get("uuids") is not None else None,
                )
            )
            pfs.append(
                PerceptionPassFailConfig(
                    evaluator_config=mgr.evaluator_config,
                    target_labels=list(d["targets"]),
                    matching_threshold_list=list(f["pf"]) if f["pf"] is not None else None,
                )
            )
    if len(crits) != len(d["frames"]) or len(pfs) != len(d["frames"]):
        return None
    for i, f in enumerate(d["frames"]):
        t = D.T0 + i * 100_000
        ests = D.objs2d(f["est"], t)
        est_lists.append(ests)
        res = None
        with ctx.under_test(what):
            now = mgr.get_ground_truth_now_frame(t)
            res = mgr.add_frame_result(unix_time=t, ground_truth_now_frame=now, estimated_objects=list(ests), critical_object_filter_config=crits[i], frame_pass_fail_config=pfs[i])
        if res is None:
            return None
        results.append(res)
    return {"mgr": mgr, "gt_frames": gt_frames, "est_lists": est_lists, "results": results}


def view2d(o):
    return {"label": o["label"], "x": None, "y": None, "score": o.get("score", 1.0), "pts": None, "uuid": o.get("uuid"), "name": o.get("name", o["label"]), "attrs": o.get("attrs") or []}


def mgr_criteria2d(d):
    return {"targets": list(d["targets"]), "conf": d["mgr"].get("conf"), "uuids": d["mgr"].get("uuids")}


def crit_criteria2d(d, c):
    return {"targets": list(d["targets"]), "conf": c.get("conf"), "uuids": c.get("uuids")}


def roi_iou(a, b):
    from fractions import Fraction

    ax, ay, aw, ah = a
    bx, by, bw, bh = b
    iw = max(0, min(ax + aw, bx + bw) - max(ax, bx))
    ih = max(0, min(ay + ah, by + bh) - max(ay, by))
    inter = iw * ih
    return float(Fraction(inter, aw * ah + bw * bh - inter))
