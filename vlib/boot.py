"""Process bootstrap: make the *working tree* of the repository under test importable.

`perception_eval` is installed in /venv as a .pth entry that points at /repo/perception_eval,
so importing it in a fresh process *is* "rebuilding from the working tree".  VERIF_REPO (default
/repo) lets the sensitivity harness point the very same checks at a scratch copy.
"""
import logging
import os
import subprocess
import sys
import warnings

ROOT = os.path.dirname(os.path.dirname(os.path.abspath(__file__)))
REPO = os.environ.get("VERIF_REPO", "/repo")
WHEELS = "/opt/veriftools/wheels"


def ensure_hypothesis():
    try:
        import hypothesis  # noqa: F401

        return
    except ImportError:
        pass
    # offline install beside the repository's packages (documented in the brief)
    subprocess.run(
        [sys.executable, "-m", "pip", "install", "--no-index", "--find-links", WHEELS, "hypothesis"],
        check=False,
        stdout=subprocess.DEVNULL,
        stderr=subprocess.DEVNULL,
    )
    import importlib

    importlib.invalidate_caches()
    import hypothesis  # noqa: F401


def ensure_atheris():
    """atheris is optional (thorough-tier fuzz sub-checks): install the wheel offline into <checkout>/.deps if missing."""
    deps = os.path.join(ROOT, ".deps")
    if os.path.isdir(os.path.join(deps, "atheris")):
        return True
    r = subprocess.run(
        [sys.executable, "-m", "pip", "install", "--no-index", "--find-links", WHEELS, "--target", deps, "atheris"],
        check=False,
        stdout=subprocess.DEVNULL,
        stderr=subprocess.DEVNULL,
    )
    return r.returncode == 0 and os.path.isdir(os.path.join(deps, "atheris"))


def boot():
    pkg = os.path.join(REPO, "perception_eval")
    if not os.path.isdir(os.path.join(pkg, "perception_eval")):
        print(f"HARNESS-ERROR: repository not found at {pkg}", file=sys.stderr)
        sys.exit(2)
    if pkg in sys.path:
        sys.path.remove(pkg)
    sys.path.insert(0, pkg)
    if ROOT not in sys.path:
        sys.path.insert(1, ROOT)
    os.environ.setdefault("MPLBACKEND", "Agg")
    warnings.filterwarnings("ignore")
    logging.disable(logging.CRITICAL)  # the library logs a warning per unknown label etc.
    ensure_hypothesis()
    import perception_eval  # noqa: F401

    got = os.path.realpath(os.path.dirname(os.path.dirname(perception_eval.__file__)))
    if got != os.path.realpath(pkg):
        print(f"HARNESS-ERROR: perception_eval imported from {got}, expected {pkg}", file=sys.stderr)
        sys.exit(2)
