"""Reference T4 / nuScenes dataset writer and the frames a faithful loader must produce from it.

Pure Python (json, os, math via ref_geom).  No perception_eval / pyquaternion / numpy / nuscenes import.

A *dataset descriptor* is a JSON-able dict:

  {
    "lidar":  "LIDAR_TOP" | "LIDAR_CONCAT",          # channel of the key-frame lidar sample_data
    "lidar_qs": 1 | -1,                              # sign of the identity quaternion in its calibration
    "sensors": [ {"channel": "CAM_FRONT", "modality": "camera",
                  "p": [x,y,z], "ypr": [yaw,pitch,roll], "qs": 1|-1}, ... ],     # extra sensors (arbitrary calibration)
    "categories": ["vehicle.car", "spaceship", ...],                            # category table (names unique)
    "attributes": ["vehicle.moving", ...],                                      # attribute table
    "vis": [[token, level], ...],                                               # visibility table (may be empty)
    "instances": [category_index, ...],                                         # instance table
    "samples": [ {"t": unix_us, "lidar_dt": us, "ego": {"p":[x,y,z], "ypr":[..], "qs": ±1},
                  "anns": [ {"inst": i, "p": [x,y,z], "ypr": [yaw,pitch,roll], "qs": ±1, "size": [w,l,h],
                             "pts": n, "radar": m, "vis": index | None, "attrs": [attribute_index,...]}, ...]}, ...],
    "sweeps": k,                                     # non-key-frame lidar sample_data written after each sample
    "ann_order": "sample" | "instance" | "reverse",  # physical order of the sample_annotation table
  }

Conventions (nuScenes schema): quaternions (w, x, y, z); sizes (width, length, height); timestamps in microseconds;
`prev`/`next` chains: samples in time order inside the single scene; sample_annotations per instance in time order
(gaps allowed: an instance may be absent from a sample and come back); sample_data per sensor channel in time order.
The lidar is calibrated at the ego origin with identity rotation (T4 precondition of the property).
Each sample_data record has its own ego_pose record; the pose of the *lidar key frame* is the sample's ego pose, the
other sensors' key frames carry deliberately different ego poses and time stamps.
"""
import json
import os

from vlib import ref_geom as G

TABLES = [
    "attribute",
    "calibrated_sensor",
    "category",
    "ego_pose",
    "instance",
    "log",
    "map",
    "sample",
    "sample_annotation",
    "sample_data",
    "scene",
    "sensor",
    "visibility",
]

# ------------------------------------------------------------------------------------------------
# golden tables (transcribed from docs/en/perception/label.md and the Visibility docstring / enum)
# ------------------------------------------------------------------------------------------------

# category name (lower case) -> AutowareLabel member name, merge_similar_labels = False
GOLDEN_LABEL = {
    "car": "CAR",
    "vehicle.car": "CAR",
    "vehicle.construction": "CAR",
    "vehicle.emergency (ambulance & police)": "CAR",
    "vehicle.police": "CAR",
    "vehicle.fire": "CAR",
    "vehicle.ambulance": "CAR",
    "truck": "TRUCK",
    "vehicle.truck": "TRUCK",
    "trailer": "TRUCK",
    "vehicle.trailer": "TRUCK",
    "bus": "BUS",
    "vehicle.bus": "BUS",
    "vehicle.bus (bendy & rigid)": "BUS",
    "bicycle": "BICYCLE",
    "vehicle.bicycle": "BICYCLE",
    "motorbike": "MOTORBIKE",
    "motorcycle": "MOTORBIKE",
    "vehicle.motorcycle": "MOTORBIKE",
    "pedestrian": "PEDESTRIAN",
    "stroller": "PEDESTRIAN",
    "pedestrian.adult": "PEDESTRIAN",
    "pedestrian.child": "PEDESTRIAN",
    "pedestrian.construction_worker": "PEDESTRIAN",
    "pedestrian.personal_mobility": "PEDESTRIAN",
    "pedestrian.police_officer": "PEDESTRIAN",
    "pedestrian.stroller": "PEDESTRIAN",
    "pedestrian.wheelchair": "PEDESTRIAN",
    "unknown": "UNKNOWN",
    "animal": "UNKNOWN",
    "movable_object.barrier": "UNKNOWN",
    "movable_object.debris": "UNKNOWN",
    "movable_object.pushable_pullable": "UNKNOWN",
    "movable_object.trafficcone": "UNKNOWN",
    "movable_object.traffic_cone": "UNKNOWN",
    "static_object.bicycle rack": "UNKNOWN",
    "static_object.bollard": "UNKNOWN",
}
MERGE = {"TRUCK": "CAR", "BUS": "CAR", "MOTORBIKE": "BICYCLE"}

# visibility level string -> Visibility member name
GOLDEN_VIS = {
    "full": "FULL",
    "most": "MOST",
    "partial": "PARTIAL",
    "none": "NONE",
    "not available": "UNAVAILABLE",
    "v80-100": "FULL",
    "v60-80": "MOST",
    "v40-60": "PARTIAL",
    "v0-40": "NONE",
}


def ref_label(category, merge):
    """Member name of the Autoware label a category converts to (unregistered names -> UNKNOWN)."""
    m = GOLDEN_LABEL.get(category.lower(), "UNKNOWN")
    return MERGE.get(m, m) if merge else m


def is_registered(category):
    return category.lower() in GOLDEN_LABEL


def ref_visibility(level):
    """Member name for a visibility level (unknown spellings -> UNAVAILABLE)."""
    return GOLDEN_VIS.get(level, "UNAVAILABLE")


# ------------------------------------------------------------------------------------------------
# poses
# ------------------------------------------------------------------------------------------------


def pose_q(o):
    y, p, r = o["ypr"]
    return G.q_from_ypr(y, p, r, o.get("qs", 1))


def pose_tf(o):
    """{"p","ypr","qs"} -> rigid transform (translation, quaternion): local -> parent."""
    return (tuple(float(c) for c in o["p"]), pose_q(o))


# ------------------------------------------------------------------------------------------------
# tokens
# ------------------------------------------------------------------------------------------------


def tok_sample(i):
    return f"sample{i:02d}"


def tok_inst(i):
    return f"instance{i:02d}"


def tok_ann(s, k):
    return f"ann_s{s:02d}_{k:02d}"


def tok_cat(i):
    return f"category{i:02d}"


def tok_attr(i):
    return f"attribute{i:02d}"


def tok_sd(ch, s, k=None):
    return f"sd_{ch}_{s:02d}" + ("" if k is None else f"_sweep{k}")


# ------------------------------------------------------------------------------------------------
# tables
# ------------------------------------------------------------------------------------------------


def _other_ego(ego, j):
    """A different, deterministic ego pose for the j-th extra sensor's sample_data (never the sample's pose)."""
    p = ego["p"]
    y, pi, r = ego["ypr"]
    return {"p": [p[0] + 3.0 + j, p[1] - 2.0 - j, p[2] + 0.5], "ypr": [G.wrap(y + 0.7 + 0.3 * j), pi, r], "qs": ego.get("qs", 1)}


def tables(d):
    """Descriptor -> {table name: list of records}."""
    S = d["samples"]
    n = len(S)
    T = {k: [] for k in TABLES}

    T["category"] = [{"token": tok_cat(i), "name": c, "description": ""} for i, c in enumerate(d["categories"])]
    T["attribute"] = [{"token": tok_attr(i), "name": a, "description": ""} for i, a in enumerate(d["attributes"])]
    T["visibility"] = [{"token": t, "level": lv, "description": ""} for t, lv in d["vis"]]

    # sensors
    sensors = [{"channel": d["lidar"], "modality": "lidar", "p": [0.0, 0.0, 0.0], "ypr": [0.0, 0.0, 0.0], "qs": d.get("lidar_qs", 1)}]
    sensors += d.get("sensors", [])
    for s in sensors:
        ch = s["channel"]
        T["sensor"].append({"token": "sensor_" + ch, "channel": ch, "modality": s["modality"]})
        T["calibrated_sensor"].append(
            {
                "token": "calib_" + ch,
                "sensor_token": "sensor_" + ch,
                "translation": [float(c) for c in s["p"]],
                "rotation": list(pose_q(s)),
                "camera_intrinsic": [[1000.0, 0.0, 640.0], [0.0, 1000.0, 360.0], [0.0, 0.0, 1.0]] if s["modality"] == "camera" else [],
            }
        )
    # put the lidar somewhere else than first when there are other sensors (table order is not meaningful)
    if len(sensors) > 2:
        T["sensor"].append(T["sensor"].pop(0))
        T["calibrated_sensor"].append(T["calibrated_sensor"].pop(0))

    # log / map / scene
    T["log"] = [{"token": "log0", "logfile": "", "vehicle": "verif", "date_captured": "2020-01-01", "location": "lab"}]
    T["map"] = [{"token": "map0", "category": "semantic_prior", "filename": "maps/empty.png", "log_tokens": ["log0"]}]
    # one scene, or two scenes when the descriptor has "scene_cut": k (samples [0, k) and [k, n); the generator makes the
    # instances of the two scenes disjoint and may give the first-listed scene the LATER timestamps — the sample table
    # is then not chronological, as in multi-scene nuScenes data)
    cut = d.get("scene_cut")

    def scene_of(i):
        return 0 if cut is None or i < cut else 1

    bounds = [(0, n)] if cut is None else [(0, cut), (cut, n)]
    T["scene"] = [
        {
            "token": f"scene{k}",
            "log_token": "log0",
            "nbr_samples": hi - lo,
            "first_sample_token": tok_sample(lo),
            "last_sample_token": tok_sample(hi - 1),
            "name": f"scene-verif-{k}",
            "description": "",
        }
        for k, (lo, hi) in enumerate(bounds)
    ]

    # samples (table order = chain order inside each scene)
    for i, s in enumerate(S):
        T["sample"].append(
            {
                "token": tok_sample(i),
                "timestamp": int(s["t"]),
                "prev": tok_sample(i - 1) if i > 0 and scene_of(i - 1) == scene_of(i) else "",
                "next": tok_sample(i + 1) if i < n - 1 and scene_of(i + 1) == scene_of(i) else "",
                "scene_token": f"scene{scene_of(i)}",
            }
        )

    # sample_data + ego_pose: per channel a time-ordered chain  key(0) sweeps.. key(1) sweeps.. ...
    sweeps = int(d.get("sweeps", 0))
    for j, sen in enumerate(sensors):
        ch = sen["channel"]
        is_lidar = j == 0
        chain = []
        for i, s in enumerate(S):
            if is_lidar:
                ts = int(s["t"]) + int(s.get("lidar_dt", 0))
                ego = s["ego"]
            else:
                ts = int(s["t"]) - 7000 * j - 1
                ego = _other_ego(s["ego"], j)
            chain.append((tok_sd(ch, i), i, ts, ego, True))
            if is_lidar:
                for k in range(sweeps):
                    # intermediate sweeps belong to the sample that precedes them and are never key frames
                    chain.append((tok_sd(ch, i, k), i, ts + 1000 * (k + 1), _other_ego(s["ego"], 5 + k), False))
        for c, (tok, si, ts, ego, key) in enumerate(chain):
            ext = {"lidar": "pcd.bin", "camera": "jpg", "radar": "pcd"}[sen["modality"]]
            T["sample_data"].append(
                {
                    "token": tok,
                    "sample_token": tok_sample(si),
                    "ego_pose_token": "ego_" + tok,
                    "calibrated_sensor_token": "calib_" + ch,
                    "timestamp": ts,
                    "fileformat": ext.split(".")[0],
                    "is_key_frame": key,
                    "height": 720 if sen["modality"] == "camera" else 0,
                    "width": 1280 if sen["modality"] == "camera" else 0,
                    "filename": f"data/{ch}/{c}.{ext}",
                    "prev": chain[c - 1][0] if c > 0 and scene_of(chain[c - 1][1]) == scene_of(si) else "",
                    "next": chain[c + 1][0] if c < len(chain) - 1 and scene_of(chain[c + 1][1]) == scene_of(si) else "",
                }
            )
            T["ego_pose"].append(
                {"token": "ego_" + tok, "timestamp": ts, "translation": [float(v) for v in ego["p"]], "rotation": list(pose_q(ego))}
            )
    # physical order of the sample_data table when there are extra sensors ("sd_order"): the extra sensors' records
    # first and the lidar's last (default), the lidar's first, or the lidar's in the middle — the order in which a
    # sample's key-frame records are met decides the key order of the loader's sample["data"] dict
    if len(sensors) > 1:
        nl = n * (1 + sweeps)
        how = d.get("sd_order", "lidar_last")
        if how == "lidar_last":
            cut = len(T["sample_data"])
        elif how == "lidar_middle":
            cut = nl + ((len(T["sample_data"]) - nl) // (2 * n)) * n
        else:
            cut = nl
        if cut != nl:
            T["sample_data"] = T["sample_data"][nl:cut] + T["sample_data"][:nl] + T["sample_data"][cut:]
            T["ego_pose"] = T["ego_pose"][nl:cut] + T["ego_pose"][:nl] + T["ego_pose"][cut:]

    # annotations
    per_inst = {}
    anns = []
    for i, s in enumerate(S):
        for k, a in enumerate(s["anns"]):
            per_inst.setdefault(a["inst"], []).append((i, k))
    chain_prev, chain_next = {}, {}
    for inst, lst in per_inst.items():
        for c, (i, k) in enumerate(lst):
            chain_prev[(i, k)] = tok_ann(*lst[c - 1]) if c > 0 else ""
            chain_next[(i, k)] = tok_ann(*lst[c + 1]) if c < len(lst) - 1 else ""
    for i, s in enumerate(S):
        for k, a in enumerate(s["anns"]):
            vis = a.get("vis")
            anns.append(
                (
                    (i, k, a["inst"]),
                    {
                        "token": tok_ann(i, k),
                        "sample_token": tok_sample(i),
                        "instance_token": tok_inst(a["inst"]),
                        "visibility_token": d["vis"][vis][0] if vis is not None else "",
                        "attribute_tokens": [tok_attr(x) for x in a["attrs"]],
                        "translation": [float(c) for c in a["p"]],
                        "size": [float(c) for c in a["size"]],
                        "rotation": list(pose_q(a)),
                        "prev": chain_prev[(i, k)],
                        "next": chain_next[(i, k)],
                        "num_lidar_pts": int(a["pts"]),
                        "num_radar_pts": int(a["radar"]),
                    },
                )
            )
    order = d.get("ann_order", "sample")
    if order == "instance":
        anns.sort(key=lambda e: (e[0][2], e[0][0], e[0][1]))
    elif order == "reverse":
        anns.reverse()
    T["sample_annotation"] = [r for _, r in anns]

    for inst, cat in enumerate(d["instances"]):
        lst = per_inst.get(inst, [])
        T["instance"].append(
            {
                "token": tok_inst(inst),
                "category_token": tok_cat(cat),
                "nbr_annotations": len(lst),
                "first_annotation_token": tok_ann(*lst[0]) if lst else "",
                "last_annotation_token": tok_ann(*lst[-1]) if lst else "",
            }
        )
    return T


def write_dataset(d, root):
    """Write the 13 tables under root/annotation (plus the empty files nuScenes' loader insists on)."""
    T = tables(d)
    ann = os.path.join(root, "annotation")
    os.makedirs(ann, exist_ok=True)
    os.makedirs(os.path.join(root, "maps"), exist_ok=True)
    with open(os.path.join(root, "maps", "empty.png"), "wb"):
        pass
    for name in TABLES:
        with open(os.path.join(ann, name + ".json"), "w") as f:
            json.dump(T[name], f)
    return T


# ------------------------------------------------------------------------------------------------
# expectation
# ------------------------------------------------------------------------------------------------


def expected_frames(d, frame_id):
    """What the descriptor says each frame holds.

    Returns a list (one entry per sample, in order) of
      {"t", "ego": tf(base_link->map), "objects": [ {uuid, category, attributes, size, pts, vis_level | None,
        "pose": (p, q) in `frame_id`, "pose_map": (p, q), "pose_ego": (p, q),
        "past": [ {"map": (p,q), "ego_then": (p,q), "ego_now": (p,q), "size": [...]} for every earlier sample holding
                  the instance ] } ] }
    """
    assert frame_id in ("map", "base_link")
    out = []
    hist = {}  # instance -> list of (sample index, annotation)
    for i, s in enumerate(d["samples"]):
        ego = pose_tf(s["ego"])
        inv = G.tf_inv(ego)
        objs = []
        for a in s["anns"]:
            g = pose_tf(a)
            e = (G.tf_apply(inv, g[0]), G.tf_apply_q(inv, g[1]))
            past = []
            for (pi, pa) in hist.get(a["inst"], []):
                pg = pose_tf(pa)
                pinv = G.tf_inv(pose_tf(d["samples"][pi]["ego"]))
                past.append(
                    {
                        "map": pg,
                        "ego_then": (G.tf_apply(pinv, pg[0]), G.tf_apply_q(pinv, pg[1])),
                        "ego_now": (G.tf_apply(inv, pg[0]), G.tf_apply_q(inv, pg[1])),
                        "size": [float(c) for c in pa["size"]],
                    }
                )
            vis = a.get("vis")
            objs.append(
                {
                    "uuid": tok_inst(a["inst"]),
                    "category": d["categories"][d["instances"][a["inst"]]],
                    "attributes": [d["attributes"][x] for x in a["attrs"]],
                    "size": [float(c) for c in a["size"]],
                    "pts": int(a["pts"]),
                    "vis_level": d["vis"][vis][1] if vis is not None else None,
                    "pose": g if frame_id == "map" else e,
                    "pose_map": g,
                    "pose_ego": e,
                    "past": past,
                }
            )
        for a in s["anns"]:
            hist.setdefault(a["inst"], []).append((i, a))
        out.append({"t": int(s["t"]), "ego": ego, "objects": objs})
    return out


def rot_angle(a, b):
    """Angle (rad, in [0, pi]) of the rotation taking orientation a to b; q and -q are the same orientation."""
    import math

    r = G.q_mul(G.q_conj(G.q_norm(a)), G.q_norm(b))
    return 2.0 * math.atan2(math.sqrt(r[1] * r[1] + r[2] * r[2] + r[3] * r[3]), abs(r[0]))


def pose_close(got_p, got_q, exp, ptol=1e-6, atol=1e-7):
    """Position within ptol*(1+|p|) per axis, orientation the same rotation within atol rad."""
    ep, eq = exp
    for g, e in zip(got_p, ep):
        if not abs(g - e) <= ptol * (1.0 + abs(e)):
            return False
    return rot_angle(tuple(got_q), eq) <= atol
