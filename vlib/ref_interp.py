"""Reference model for ground-truth frame lookup and frame interpolation (property C17).

Pure Python (no numpy / pyquaternion / perception_eval).  Times are integers [us]; poses are
(position 3-tuple, quaternion (w, x, y, z)) in *global* (map) coordinates.

Written from the property statement, deliberately not from the library's scan loops:
  * nearest lookup   = arg-min over *all* frames of |dt| (all tied indices are returned), gated by dt <= tol
                       (docstring of get_now_frame: "larger than threshold => None");
  * neighbours       = bisection on the (strictly increasing) time list: b = last frame <= t, a = first frame > t;
  * interpolation    = straight segment for positions, shortest great arc (slerp) for orientations, at the
                       exact rational alpha = (t - t_b) / (t_a - t_b).
"""
import bisect
import math
from fractions import Fraction

from vlib import ref_geom as G


# ------------------------------------------------------------------------------------------------
# lookup decisions (exact integer arithmetic)
# ------------------------------------------------------------------------------------------------


def nearest(times, t, tol):
    """Indices of the frames a nearest-frame lookup may return ([] = nothing): all arg-mins of |dt| if <= tol."""
    dts = [abs(t - x) for x in times]
    m = min(dts)
    if m > tol:
        return []
    return [i for i, d in enumerate(dts) if d == m]


def neighbours(times, t):
    """(b, a): index of the last frame with time <= t and of the first frame with time > t (None if absent).

    `times` must be strictly increasing."""
    k = bisect.bisect_right(times, t)  # times[:k] <= t < times[k:]
    b = k - 1 if k > 0 else None
    a = k if k < len(times) else None
    return b, a


def plan(times, t, tol):
    """What an interpolated lookup has to return.

    ("none",) | ("frame", index) | ("interp", b, a, alpha: Fraction)"""
    b, a = neighbours(times, t)
    b_ok = b is not None and t - times[b] <= tol
    a_ok = a is not None and times[a] - t <= tol
    if b_ok and a_ok:
        return ("interp", b, a, Fraction(t - times[b], times[a] - times[b]))
    if b_ok:
        return ("frame", b)
    if a_ok:
        return ("frame", a)
    return ("none",)


# ------------------------------------------------------------------------------------------------
# interpolation
# ------------------------------------------------------------------------------------------------


def lerp(p1, p2, alpha):
    al = float(alpha)
    return tuple(x + (y - x) * al for x, y in zip(p1, p2))


def slerp(q1, q2, alpha):
    """Shortest-arc spherical interpolation (exact slerp; q and -q denote the same rotation)."""
    return G.q_slerp(q1, q2, float(alpha))


def arc_dot(q1, q2):
    """|<q1,q2>| of the normalised quaternions: 0 means the two rotations are half a turn apart (the shortest
    arc is ambiguous there), 1 means equal rotations."""
    a, b = G.q_norm(q1), G.q_norm(q2)
    return abs(sum(x * y for x, y in zip(a, b)))


def rot_angle(q1, q2):
    """Angle [rad] of the rotation taking q1 to q2 (sign-insensitive), accurate near 0 (no acos of ~1)."""
    a, b = G.q_norm(q1), G.q_norm(q2)
    if sum(x * y for x, y in zip(a, b)) < 0:
        b = G.q_neg(b)
    dm = math.sqrt(sum((x - y) ** 2 for x, y in zip(a, b)))
    dp = math.sqrt(sum((x + y) ** 2 for x, y in zip(a, b)))
    return 4.0 * math.atan2(dm, dp)


def interpolate_objects(objs_b, objs_a, alpha):
    """objs_* : {uuid: (p, q)} global poses in the two neighbours.

    Returns {uuid: (kind, p, q)} with kind in "shared" | "only_b" | "only_a"; every uuid of either neighbour
    appears exactly once."""
    out = {}
    for u, (p, q) in objs_b.items():
        if u in objs_a:
            p2, q2 = objs_a[u]
            out[u] = ("shared", lerp(p, p2, alpha), slerp(q, q2, alpha))
        else:
            out[u] = ("only_b", tuple(p), tuple(q))
    for u, (p, q) in objs_a.items():
        if u not in objs_b:
            out[u] = ("only_a", tuple(p), tuple(q))
    return out


# ------------------------------------------------------------------------------------------------
# helpers to read poses expressed with a 4x4 homogeneous matrix (list of rows)
# ------------------------------------------------------------------------------------------------


def q_from_matrix(m):
    """Unit quaternion (w, x, y, z) of a 3x3 rotation matrix (Shepperd's method: largest pivot first)."""
    t = m[0][0] + m[1][1] + m[2][2]
    if t > 0:
        s = math.sqrt(t + 1.0) * 2
        q = (0.25 * s, (m[2][1] - m[1][2]) / s, (m[0][2] - m[2][0]) / s, (m[1][0] - m[0][1]) / s)
    elif m[0][0] > m[1][1] and m[0][0] > m[2][2]:
        s = math.sqrt(1.0 + m[0][0] - m[1][1] - m[2][2]) * 2
        q = ((m[2][1] - m[1][2]) / s, 0.25 * s, (m[0][1] + m[1][0]) / s, (m[0][2] + m[2][0]) / s)
    elif m[1][1] > m[2][2]:
        s = math.sqrt(1.0 + m[1][1] - m[0][0] - m[2][2]) * 2
        q = ((m[0][2] - m[2][0]) / s, (m[0][1] + m[1][0]) / s, 0.25 * s, (m[1][2] + m[2][1]) / s)
    else:
        s = math.sqrt(1.0 + m[2][2] - m[0][0] - m[1][1]) * 2
        q = ((m[1][0] - m[0][1]) / s, (m[0][2] + m[2][0]) / s, (m[1][2] + m[2][1]) / s, 0.25 * s)
    return G.q_norm(q)


def tf_from_matrix(m4):
    """(translation, quaternion) of a 4x4 homogeneous matrix given as nested lists."""
    return (tuple(m4[i][3] for i in range(3)), q_from_matrix([row[:3] for row in m4[:3]]))


def pos_err(p, ref):
    return math.sqrt(sum((x - y) ** 2 for x, y in zip(p, ref)))


def pos_tol(ref, rel=1e-6):
    return rel * (1.0 + math.sqrt(sum(c * c for c in ref)))
