"""C10 — object filtering keeps exactly the objects satisfying the configured criteria."""
import copy
import math

from hypothesis import strategies as st

from vlib import desc as D
from vlib import gen as GEN
from vlib import ref_filter as RF
from vlib import ref_geom as G
from vlib.harness import Check

CHECK = Check(
    "C10",
    rule=(
        "object lists (3D in base_link or map frame with generated ego pose; ROI 2D) with labels from targets + "
        "{unknown, false_positive, non-target}, original names / attributes, confidences (also on ground truths), "
        "point counts, uuids; criteria drawn per family: target labels (with/without 'unknown'), ignore attributes, "
        "x/y or min/max distance per label, confidence, min points, target uuids; is_gt both; object results with "
        "and without GT. Non-trivial = list of >=4 objects of which >=1 kept and >=1 removed with >=2 criteria "
        "active; distinct by descriptor hash."
    ),
    assumptions=[
        "P2: per-label lists only together with target_labels and with one entry per label",
        "P8: ignore keys are complete original names or complete attribute strings, none a substring of another name",
        "range decisions within 1e-6 of a bound are not asserted (margin rule); confidence / point counts are discrete",
        "map-frame objects are filtered with the frame's transforms supplied (as the manager does)",
    ],
    design_ref="§6 C10",
)

MARGIN = 1e-6
NAMES = {
    "car": ["car", "vehicle.car", "vehicle.police"],
    "bicycle": ["bicycle", "vehicle.bicycle"],
    "pedestrian": ["pedestrian", "pedestrian.adult", "pedestrian.child"],
    "truck": ["truck", "vehicle.truck"],
    "bus": ["bus", "vehicle.bus"],
    "motorbike": ["motorbike", "vehicle.motorcycle"],
    "unknown": ["unknown", "movable_object.barrier"],
    "animal": ["animal"],
    "false_positive": ["false_positive"],
}
ATTRS = ["cycle_state.without_rider", "cycle_state.with_rider", "vehicle_state.parked", "pedestrian_state.sitting", "vehicle_state.Stopped"]  # dataset attribute strings are arbitrary (mixed case, too)
IGNORABLE = ["vehicle.police", "pedestrian.child", "movable_object.barrier", "vehicle.motorcycle"] + ATTRS


@st.composite
def criteria(draw, with_unknown_target=None):
    if draw(st.integers(0, 7)) == 0:
        c = {"targets": None}
        n = 0
    else:
        targets = draw(st.lists(st.sampled_from(GEN.TARGETS), min_size=1, max_size=4, unique=True))
        if with_unknown_target if with_unknown_target is not None else draw(st.integers(0, 4)) == 0:
            targets = targets + ["unknown"]
        c = {"targets": targets}
        n = len(targets)
    c["ignore"] = draw(st.one_of(st.none(), st.lists(st.sampled_from(IGNORABLE), min_size=1, max_size=3, unique=True)))
    if n:
        kind = draw(st.sampled_from(["xy", "dist", "none", "xy", "dist"]))
        bounds = st.sampled_from([8.0, 15.0, 30.0, 60.0])
        # every bound is a criterion of its own: direct callers (e.g. the distance-bin helper of the analysis tools) pass one
        # of a pair and leave the other unset
        part = draw(st.sampled_from(["both", "both", "first", "second"]))
        if kind == "xy":
            if part != "second":
                c["max_x"] = draw(GEN.per_label(n, bounds))
            if part != "first":
                c["max_y"] = draw(GEN.per_label(n, bounds))
        elif kind == "dist":
            if part != "second":
                c["max_d"] = draw(GEN.per_label(n, bounds))
            if part != "first":
                c["min_d"] = draw(GEN.per_label(n, st.sampled_from([0.0, 2.0, 6.0])))
        if draw(st.booleans()):
            c["conf"] = draw(GEN.per_label(n, st.sampled_from([0.0, 0.25, 0.5, 0.75])))
        if draw(st.booleans()):
            c["min_pts"] = draw(GEN.per_label(n, st.sampled_from([0, 1, 5, 20])))
    if draw(st.integers(0, 3)) == 0:
        c["uuids"] = draw(st.lists(st.sampled_from([f"u{i}" for i in range(8)]), min_size=1, max_size=4, unique=True))
    return c


@st.composite
def obj_lists(draw, tier="quick"):
    c = draw(criteria())
    targets = c["targets"] or draw(st.lists(st.sampled_from(GEN.TARGETS), min_size=1, max_size=3, unique=True))
    pool = list(dict.fromkeys(list(targets) + ["unknown", "false_positive", draw(st.sampled_from(GEN.TARGETS + ["animal"]))]))
    n = draw(GEN.counts(0, 24 if tier == "thorough" else 10))
    objs = []
    for i in range(n):
        lab = draw(st.sampled_from(pool))
        r = draw(st.sampled_from([5.0, 12.0, 25.0, 50.0, 70.0]))
        pos = [draw(GEN.fl(-1, 1)) * r + 0.013, draw(GEN.fl(-1, 1)) * r - 0.007, draw(GEN.fl(-2, 2))]
        if draw(st.booleans()):
            # just inside / just outside one of the bounds in play (1 % .. 8 % off): sensitive to small metric errors,
            # yet far beyond the 1e-6 decision margin
            b = draw(st.sampled_from([2.0, 6.0, 8.0, 15.0, 30.0, 60.0])) * (1 + draw(st.sampled_from([0.01, -0.01, 0.03, -0.03, 0.08, -0.08])))
            how = draw(st.sampled_from(["radial", "radial", "x", "y"]))
            if how == "radial":
                ang = draw(GEN.fl(-3.14, 3.14))
                pos = [b * math.cos(ang), b * math.sin(ang), pos[2]]
            elif how == "x":
                pos = [b * draw(st.sampled_from([1, -1])), pos[1] * 0.1, pos[2]]
            else:
                pos = [pos[0] * 0.1, b * draw(st.sampled_from([1, -1])), pos[2]]
        objs.append(
            {
                "p": pos,
                "yaw": draw(GEN.yaws()),
                "qs": draw(GEN.qsigns()),
                "size": [1.8, 4.2, 1.5],
                "label": lab,
                "name": draw(st.sampled_from(NAMES[lab])),
                "attrs": draw(st.lists(st.sampled_from(ATTRS), max_size=2, unique=True)),
                "score": draw(st.sampled_from([0.0, 0.1, 0.3, 0.5, 0.6, 0.9, 1.0])),
                "pts": draw(st.sampled_from([0, 1, 3, 5, 10, 50])),
                "uuid": draw(st.sampled_from([f"u{i}" for i in range(8)])),
            }
        )
    frame = draw(st.sampled_from(["base_link", "map"]))
    ego = draw(GEN.ego_poses()) if frame == "map" else [0.0, 0.0, 0.0]
    if frame == "map" and draw(st.booleans()):
        # ego on a slope: [x, y, z, yaw, pitch, roll]; "ego-relative x/y or planar distance" is measured in the ego's own plane
        ego = [ego[0], ego[1], draw(GEN.fl(-20, 20)), ego[2], draw(st.sampled_from([0.15, -0.25, 0.4, -0.45])) , draw(GEN.fl(-0.3, 0.3))]
    return {"frame": frame, "ego": ego, "objs": objs, "is_gt": draw(st.booleans()), "crit": c}


def _tr_snapshot(tr):
    import numpy as np

    return sorted((str(k), np.array(v.matrix).tolist()) for k, v in tr.items())


def _kwargs(c):
    kw = {}
    if c.get("targets") is not None:
        kw["target_labels"] = D.labels(c["targets"])
    for k_src, k_dst in (("ignore", "ignore_attributes"), ("max_x", "max_x_position_list"), ("max_y", "max_y_position_list"), ("max_d", "max_distance_list"), ("min_d", "min_distance_list"), ("conf", "confidence_threshold_list"), ("min_pts", "min_point_numbers"), ("uuids", "target_uuids")):
        if c.get(k_src) is not None:
            kw[k_dst] = list(c[k_src])
    return kw


def _view(o, with_pos=True):
    return {"label": o["label"], "x": o["p"][0] if with_pos else None, "y": o["p"][1] if with_pos else None, "score": o["score"], "pts": o.get("pts"), "uuid": o.get("uuid"), "name": o.get("name", o["label"]), "attrs": o.get("attrs") or []}


def _active(c):
    n = sum(1 for k in ("targets", "ignore", "conf", "min_pts", "uuids") if c.get(k) is not None)
    return n + (c.get("max_x") is not None or c.get("max_y") is not None) + (c.get("max_d") is not None or c.get("min_d") is not None)


def _widen(c, draw_idx):
    """One widened criterion (larger max, smaller min, lower confidence / point threshold)."""
    w = copy.deepcopy(c)
    keys = [k for k in ("max_x", "max_y", "max_d", "min_d", "conf", "min_pts") if w.get(k) is not None]
    if not keys:
        return None
    k = keys[draw_idx % len(keys)]
    if k in ("max_x", "max_y", "max_d"):
        w[k] = [v * 1.5 + 1.0 for v in w[k]]
    elif k == "min_d":
        w[k] = [v * 0.5 for v in w[k]]
    elif k == "conf":
        w[k] = [max(0.0, v - 0.25) for v in w[k]]
    else:
        w[k] = [max(0, v - 4) for v in w[k]]
    return w


@CHECK.given("objects3d", lambda tier: obj_lists(tier), quick=450, thorough=30000)
def objects3d(ctx, d):
    from perception_eval.evaluation.matching.objects_filter import filter_objects

    c, is_gt = d["crit"], d["is_gt"]
    objs = D.objs3d(d["objs"], d["frame"], d["ego"])
    tr = D.transforms(d["ego"])
    tr_snap = _tr_snapshot(tr)
    snaps = [D.snapshot3d(o) for o in objs]
    ids = [id(o) for o in objs]
    out = None
    with ctx.under_test("filter_objects"):
        out = filter_objects(list_ := objs, is_gt, transforms=tr, **_kwargs(c))
    if out is None:
        return
    ctx.cls("is_gt" if is_gt else "is_est")
    ctx.cls("frame_" + d["frame"])
    if len(d["ego"]) == 6:
        ctx.cls("ego_on_slope")
    ref, skip = [], False
    for i, o in enumerate(d["objs"]):
        k, m = RF.keep_object(_view(o), is_gt, c)
        if m < MARGIN:
            skip = True
        if k:
            ref.append(i)
    got = [next((i for i, o in enumerate(objs) if o is x), None) for x in out]
    ctx.require(None not in got, "output-not-from-input", "filter returned an object that is not an element of the input")
    ctx.require(got == sorted(got) and len(set(got)) == len(got), "not-order-preserving-sublist", lambda: f"returned indices {got}")
    if skip:
        ctx.boundary()
    else:
        ctx.require(
            got == ref,
            "kept-set",
            lambda: f"filter_objects(is_gt={is_gt}, frame={d['frame']}) kept {got} but the criteria {c} keep {ref}; "
            f"first difference: {[(i, d['objs'][i]['label'], d['objs'][i]['p'][:2], d['objs'][i]['score'], d['objs'][i]['pts'], d['objs'][i]['uuid']) for i in sorted(set(got) ^ set(ref))][:2]}",
        )
    ctx.mark_nontrivial(len(objs) >= 4 and 0 < len(got) < len(objs) and _active(c) >= 2)
    if any(o["label"] == "unknown" for o in d["objs"]) and not is_gt and c.get("targets") and "unknown" not in c["targets"]:
        ctx.cls("unknown_est_relaxed")
    if any(o["label"] == "false_positive" for o in d["objs"]):
        ctx.cls("fp_labelled")
    # input untouched
    ctx.require([id(o) for o in objs] == ids and [D.snapshot3d(o) for o in objs] == snaps, "input-mutated", "filter_objects changed its input list or objects")
    ctx.require(_tr_snapshot(tr) == tr_snap, "transforms-mutated", "filter_objects changed the TransformDict it was given")
    # idempotent
    with ctx.under_test("filter_objects(idempotence)"):
        again = filter_objects(list(out), is_gt, transforms=tr, **_kwargs(c))
        ctx.require(len(again) == len(out) and all(a is b for a, b in zip(again, out)), "not-idempotent", lambda: f"second pass keeps {len(again)} of {len(out)}")
    # widening a bound never removes a kept object
    w = _widen(c, len(d["objs"]))
    if w is not None:
        with ctx.under_test("filter_objects(widened)"):
            wide = filter_objects(objs, is_gt, transforms=tr, **_kwargs(w))
            lost = [i for i in got if not any(objs[i] is x for x in wide)]
            ctx.require(not lost, "widening-removes", lambda: f"widening {c} -> {w} removed objects {lost}")
    # the ego pose registered in the same TransformDict is updated (as frame interpolation does) and the objects, now
    # expressed for the new pose, are filtered again: same ego-frame coordinates => same kept set
    if d["frame"] == "map" and not skip:
        ego2 = [d["ego"][0] + 37.5, d["ego"][1] - 12.25, d["ego"][2] + 0.9] if len(d["ego"]) == 3 else [d["ego"][0] + 37.5, d["ego"][1] - 12.25, d["ego"][2] + 1.5, d["ego"][3] + 0.9, -d["ego"][4], d["ego"][5] * 0.5]
        from perception_eval.common.schema import FrameID

        with ctx.under_test("filter_objects(after ego pose update)"):
            tr[(FrameID.BASE_LINK, FrameID.MAP)] = D.hmatrix(ego2)
            objs2 = D.objs3d(d["objs"], "map", ego2)
            out2 = filter_objects(objs2, is_gt, transforms=tr, **_kwargs(c))
            got2 = [next((i for i, o in enumerate(objs2) if o is x), None) for x in out2]
            ctx.require(got2 == ref, "stale-transform-after-pose-update", lambda: f"after replacing base_link->map in the same TransformDict the filter kept {got2}, expected {ref}")


# ---- object results ---------------------------------------------------------------------------


@st.composite
def result_lists(draw, tier="quick"):
    base = draw(obj_lists(tier))
    pairs = []
    n = len(base["objs"])
    gts = []
    for i in range(n):
        if draw(st.integers(0, 3)) == 0:
            pairs.append(None)
            continue
        g = copy.deepcopy(base["objs"][i])
        g["p"] = [g["p"][0] + draw(st.sampled_from([0.0, 0.4, -3.0, 9.0])), g["p"][1] + draw(st.sampled_from([0.0, -0.4, 3.0, -9.0])), g["p"][2]]
        g["label"] = draw(st.sampled_from([g["label"], g["label"], "false_positive", draw(st.sampled_from(GEN.TARGETS))]))
        g["name"] = draw(st.sampled_from(NAMES[g["label"]]))
        g["score"] = draw(st.sampled_from([1.0, 1.0, 0.2]))
        g["pts"] = draw(st.sampled_from([0, 1, 5, 50]))
        g["uuid"] = draw(st.sampled_from([f"u{k}" for k in range(8)]))
        pairs.append(len(gts))
        gts.append(g)
    base["gts"] = gts
    base["pairs"] = pairs
    for o in base["objs"]:
        if o["label"] == "false_positive":
            o["label"] = "unknown"
            o["name"] = "unknown"
    return base


@CHECK.given("results3d", lambda tier: result_lists(tier), quick=350, thorough=20000)
def results3d(ctx, d):
    from perception_eval.evaluation.matching.objects_filter import filter_object_results
    from perception_eval.evaluation.result.object_result import DynamicObjectWithPerceptionResult

    c = d["crit"]
    ests = D.objs3d(d["objs"], d["frame"], d["ego"])
    gts = D.objs3d(d["gts"], d["frame"], d["ego"])
    tr = D.transforms(d["ego"])
    results = [DynamicObjectWithPerceptionResult(e, gts[p] if p is not None else None, transforms=tr) for e, p in zip(ests, d["pairs"])]
    snaps = [D.snapshot3d(o) for o in ests + gts]
    tr_snap = _tr_snapshot(tr)
    out = None
    with ctx.under_test("filter_object_results"):
        out = filter_object_results(list(results), transforms=tr, **_kwargs(c))
    if out is None:
        return
    ctx.require(_tr_snapshot(tr) == tr_snap, "transforms-mutated", "filter_object_results changed the TransformDict it was given")
    ref, skip = [], False
    for i, (e, p) in enumerate(zip(d["objs"], d["pairs"])):
        k, m = RF.keep_result(_view(e), _view(d["gts"][p]) if p is not None else None, c)
        if m < MARGIN:
            skip = True
        if k:
            ref.append(i)
    got = [next((i for i, r in enumerate(results) if r is x), None) for x in out]
    ctx.require(None not in got and got == sorted(got) and len(set(got)) == len(got), "not-order-preserving-sublist", lambda: f"{got}")
    if skip:
        ctx.boundary()
    else:
        ctx.require(
            got == ref,
            "kept-results",
            lambda: f"filter_object_results kept {got} but criteria {c} keep {ref}; differences {[(i, d['objs'][i]['label'], d['objs'][i]['p'][:2], d['objs'][i]['score'], None if d['pairs'][i] is None else (d['gts'][d['pairs'][i]]['label'], d['gts'][d['pairs'][i]]['p'][:2], d['gts'][d['pairs'][i]]['pts'], d['gts'][d['pairs'][i]]['uuid'])) for i in sorted(set(got) ^ set(ref))][:2]}",
        )
    ctx.mark_nontrivial(len(results) >= 4 and 0 < len(got) < len(results) and _active(c) >= 2)
    if any(p is None for p in d["pairs"]):
        ctx.cls("has_gtless_result")
    ctx.require([D.snapshot3d(o) for o in ests + gts] == snaps, "input-mutated", "filter_object_results changed an object")
    with ctx.under_test("filter_object_results(idempotence)"):
        again = filter_object_results(list(out), transforms=tr, **_kwargs(c))
        ctx.require(len(again) == len(out) and all(a is b for a, b in zip(again, out)), "not-idempotent", "second pass differs")


# ---- 2D objects (no position: range criteria do not apply) -----------------------------------


@st.composite
def obj_lists2d(draw, tier="quick"):
    c = draw(criteria(with_unknown_target=False))
    # ROI objects may also carry a 3D position (traffic lights; in base_link or in a camera frame with the camera ->
    # base_link transform supplied): then the x/y and planar-distance bounds apply to them like to 3D objects
    pos_mode = draw(st.sampled_from(["none", "none", "base_link", "camera"]))
    for k in ("min_pts",) if pos_mode != "none" else ("max_x", "max_y", "max_d", "min_d", "min_pts"):
        c.pop(k, None)
    targets = c["targets"] or ["car"]
    pool = list(dict.fromkeys(list(targets) + ["unknown", "false_positive", "animal"]))
    objs = []
    for i in range(draw(GEN.counts(0, 10))):
        lab = draw(st.sampled_from(pool))
        o = {
            "cam": draw(st.sampled_from(GEN.CAMS)),
            "roi": [draw(st.integers(0, 1000)), draw(st.integers(0, 1000)), draw(st.integers(1, 200)), draw(st.integers(1, 200))],
            "label": lab,
            "name": draw(st.sampled_from(NAMES[lab])),
            "attrs": draw(st.lists(st.sampled_from(ATTRS), max_size=2, unique=True)),
            "score": draw(st.sampled_from([0.0, 0.1, 0.3, 0.5, 0.6, 0.9, 1.0])),
            "uuid": draw(st.sampled_from([f"u{k}" for k in range(8)])),
        }
        if pos_mode != "none" and draw(st.integers(0, 5)) > 0:
            # planar distance next to one of the bounds in play (3 % .. 8 % off), height up to +-12 m: the planar and the
            # 3D distance fall on different sides of the bound
            b = draw(st.sampled_from([2.0, 6.0, 8.0, 15.0, 30.0, 60.0])) * (1 + draw(st.sampled_from([0.03, -0.03, 0.08, -0.08, 0.4, -0.4])))
            a = draw(GEN.fl(-3.1, 3.1))
            o["pos_ego"] = [b * math.cos(a) + 0.0013, b * math.sin(a) - 0.0007, draw(st.sampled_from([0.0, 1.5, -4.0, 8.0, 12.0]))]
        objs.append(o)
    cams = {}
    if pos_mode == "camera":
        for cam in GEN.CAMS:
            cams[cam] = [draw(GEN.fl(-2, 2)), draw(GEN.fl(-1, 1)), draw(GEN.fl(0.5, 2.5)), draw(GEN.fl(-3.1, 3.1)), draw(GEN.fl(-0.3, 0.3)), draw(GEN.fl(-0.3, 0.3))]
    return {"objs": objs, "is_gt": draw(st.booleans()), "crit": c, "pos_mode": pos_mode, "cams": cams}


@CHECK.given("objects2d", lambda tier: obj_lists2d(tier), quick=250, thorough=10000)
def objects2d(ctx, d):
    from perception_eval.common.schema import FrameID
    from perception_eval.common.transform import HomogeneousMatrix, TransformDict
    from perception_eval.evaluation.matching.objects_filter import filter_objects

    c, is_gt = d["crit"], d["is_gt"]
    mode = d.get("pos_mode", "none")
    descs, tr = [], None
    tfs = {cam: G.ego_tf(pose) for cam, pose in (d.get("cams") or {}).items()}  # camera -> base_link
    for o in d["objs"]:
        o2 = dict(o)
        if o.get("pos_ego") is not None:
            if mode == "base_link":
                o2["cam"] = "base_link"
                o2["pos"] = list(o["pos_ego"])
            else:
                o2["pos"] = list(G.tf_apply(G.tf_inv(tfs[o["cam"]]), tuple(o["pos_ego"])))
        descs.append(o2)
    if mode == "camera":
        with ctx.under_test("TransformDict(camera -> base_link)"):
            tr = TransformDict([HomogeneousMatrix(t, q, src=FrameID.from_value(cam), dst=FrameID.BASE_LINK) for cam, (t, q) in tfs.items()])
        if tr is None:
            return
    objs = D.objs2d(descs)
    out = None
    with ctx.under_test("filter_objects(2D)"):
        out = filter_objects(objs, is_gt, transforms=tr, **_kwargs(c)) if tr is not None else filter_objects(objs, is_gt, **_kwargs(c))
    if out is None:
        return
    ref, near = [], False
    for i, o in enumerate(d["objs"]):
        pe = o.get("pos_ego")
        keep, margin = RF.keep_object({"label": o["label"], "x": pe[0] if pe else None, "y": pe[1] if pe else None, "score": o["score"], "pts": None, "uuid": o["uuid"], "name": o["name"], "attrs": o["attrs"]}, is_gt, c)
        near = near or margin < 1e-6
        if keep:
            ref.append(i)
    if near:
        ctx.boundary()
        return
    ctx.cls("pos_" + mode)
    if any(o.get("pos_ego") is not None and abs(o["pos_ego"][2]) > 1 for o in d["objs"]) and (c.get("max_d") is not None):
        ctx.cls("roi_objects_with_height_under_distance_bounds")
    got = [next((i for i, o in enumerate(objs) if o is x), None) for x in out]
    ctx.require(got == ref, "kept-set-2d", lambda: f"filter_objects(2D, is_gt={is_gt}, positions: {mode}) kept {got}, criteria {c} keep {ref} (ego-frame positions {[o.get('pos_ego') for o in d['objs']]})")
    ctx.mark_nontrivial(len(objs) >= 4 and 0 < len(got) < len(objs) and _active(c) >= 2)