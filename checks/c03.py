"""C03 — per-frame TP/FP/FN/TN accounting conserves objects."""
from vlib import desc as D
from vlib import matchlib as ML
from vlib import mgrlib as MG
from vlib import ref_filter as RF
from vlib.harness import Check

CHECK = Check(
    "C03",
    rule=(
        "manager cases (detection / tracking / fp_validation; ego or map frame with arbitrary ego pose up to 1e5 m; "
        "1-3 frames; manager filter x a different, narrower per-frame critical filter (x/y box or distance ring, "
        "per label, min points, confidence, target uuids); pass/fail thresholds around the generated offsets; "
        "FP-labelled GTs mixed in) driven through PerceptionEvaluationManager.add_frame_result. Non-trivial = a frame "
        "with >=1 TP, >=1 FP and >=1 FN, or containing an FP-labelled GT, or where the critical filter removes "
        "something the manager filter kept; distinct by descriptor hash."
    ),
    assumptions=[
        "critical filter / pass-fail configs use the manager's target label list (as every caller does; Map indexes the "
        "per-frame buckets by the manager's labels)",
        "range decisions within 1e-6 of a bound and TP decisions within 1e-6 of the pass/fail threshold are not asserted",
        "an FP-labelled GT may end as TN or as the GT of a matched FP (both allowed by the statement)",
    ],
    design_ref="§6 C03",
)

MARGIN = 1e-6


class Adapter3D:
    view = staticmethod(MG.view)
    mgr_criteria = staticmethod(MG.mgr_criteria)
    crit_criteria = staticmethod(MG.crit_criteria)

    @staticmethod
    def tp_scores(e, g):
        return MG.ref_plane_distance(e, g)

    @staticmethod
    def better(v, thr):
        return v < thr

    @staticmethod
    def pos(o):
        return o["p"]

    score_name = "plane distance"


class Adapter2D:
    view = staticmethod(MG.view2d)
    mgr_criteria = staticmethod(MG.mgr_criteria2d)
    crit_criteria = staticmethod(MG.crit_criteria2d)

    @staticmethod
    def tp_scores(e, g):
        return [MG.roi_iou(e["roi"], g["roi"])]

    @staticmethod
    def better(v, thr):
        return v > thr

    @staticmethod
    def pos(o):
        return (o["cam"], o["roi"])

    score_name = "ROI IoU"


def _check_frame(ctx, d, i, run, A=Adapter3D):
    f = d["frames"][i]
    res = run["results"][i]
    gts_in = run["gt_frames"][i].objects
    ests_in = run["est_lists"][i]
    pf = res.pass_fail_result
    mc, cc = A.mgr_criteria(d), A.crit_criteria(d, f["crit"])
    fpv = d["task"].startswith("fp_validation")

    tp, fp, fn, tn = pf.tp_object_results, pf.fp_object_results, pf.fn_objects, pf.tn_objects
    obj_results = res.object_results
    crit_gts = res.frame_ground_truth.objects

    def ei(o):
        return MG.index_of(o, ests_in)

    def gi(o):
        return MG.index_of(o, gts_in)

    # ---- results = TP (+) FP, by estimate identity -----------------------------------------------
    res_est = [ei(r.estimated_object) for r in obj_results]
    ctx.require(None not in res_est and len(set(res_est)) == len(res_est), "results-not-from-input", f"object_results estimates {res_est}")
    tp_est = [ei(r.estimated_object) for r in tp]
    fp_est = [ei(r.estimated_object) for r in fp]
    ctx.require(
        sorted(tp_est + fp_est, key=str) == sorted(res_est, key=str) and len(set(tp_est + fp_est)) == len(tp_est + fp_est),
        "results-not-tp-plus-fp",
        lambda: f"frame {i}: {len(obj_results)} results but TP estimates {tp_est} + FP estimates {fp_est}",
    )
    for r in tp:
        ctx.require(any(r is x for x in obj_results), "tp-not-a-result", "a TP entry is not one of the frame's object results")

    # ---- critical GTs accounted for exactly once --------------------------------------------------
    crit_idx = [gi(g) for g in crit_gts]
    ctx.require(None not in crit_idx and len(set(crit_idx)) == len(crit_idx), "critical-gt-not-from-input", f"{crit_idx}")
    acc = []
    for r in tp:
        acc.append(("tp", gi(r.ground_truth_object)))
    for g in fn:
        acc.append(("fn", gi(g)))
    for g in tn:
        acc.append(("tn", gi(g)))
    for r in fp:
        g = r.ground_truth_object
        if g is not None and f["gt"][gi(g)]["label"] == "false_positive" if gi(g) is not None else False:
            acc.append(("fp-matched", gi(g)))
    acc_idx = [j for _, j in acc]
    ctx.require(
        None not in acc_idx and sorted(acc_idx) == sorted(crit_idx),
        "critical-gt-accounting",
        lambda: f"frame {i}: critical GTs {sorted(crit_idx)} but accounted {sorted(acc, key=lambda x: (x[1] is None, x[1]))}",
    )
    n_ord = sum(1 for j in crit_idx if j is not None and f["gt"][j]["label"] != "false_positive")
    ctx.require(len(tp) + len(fn) == n_ord, "ordinary-gt-not-tp-plus-fn", lambda: f"frame {i}: {n_ord} ordinary critical GTs, TP {len(tp)} + FN {len(fn)}")
    for kind, j in acc:
        if j is None:
            continue
        is_fp_label = f["gt"][j]["label"] == "false_positive"
        if kind in ("tp", "fn"):
            ctx.require(not is_fp_label, "fp-labelled-gt-as-" + kind, f"frame {i}: FP-labelled GT #{j} reported as {kind}")
        if kind == "tn":
            ctx.require(is_fp_label, "ordinary-gt-as-tn", f"frame {i}: ordinary GT #{j} reported as TN")
    ctx.require(pf.get_num_success() == len(tp) + len(tn) and pf.get_num_fail() == len(fp) + len(fn), "num-success-fail", "get_num_success/fail differ from the list sizes")

    # ---- every TP: compatible GT beating the threshold of the GT's label -------------------------
    for r in tp:
        a, b = ei(r.estimated_object), gi(r.ground_truth_object)
        ctx.require(b is not None, "tp-without-gt", f"frame {i}: TP estimate #{a} has no ground truth")
        if a is None or b is None:
            continue
        e, g = f["est"][a], f["gt"][b]
        ctx.require(ML.compatible(d["policy"], e["label"], g["label"]), "tp-label-incompatible", lambda: f"frame {i}: TP pairs {e['label']} with {g['label']} under {d['policy']}")
        if f["pf"] is not None and g["label"] in d["targets"]:
            thr = f["pf"][d["targets"].index(g["label"])]
            vals = A.tp_scores(e, g)
            if any(abs(v - thr) <= MARGIN for v in vals):
                ctx.boundary()
            else:
                ctx.require(any(A.better(v, thr) for v in vals), "tp-beyond-threshold", lambda: f"frame {i}: TP est #{a}/GT #{b} {A.score_name} {vals} does not beat the threshold {thr} of label {g['label']}")

    # ---- nothing outside the critical region is counted; the critical GT set is exactly the filtered one -----
    exp_gt, skip = [], False
    for j, g in enumerate(f["gt"]):
        k1, m1 = RF.keep_object(A.view(g), True, {k: mc.get(k) for k in RF.GT_KEYS})
        k2, m2 = RF.keep_object(A.view(g), True, {k: cc.get(k) for k in RF.GT_KEYS})
        if min(m1, m2) < MARGIN:
            skip = True
        if k1 and k2:
            exp_gt.append(j)
    if skip:
        ctx.boundary()
    else:
        ctx.require(sorted(crit_idx) == exp_gt, "critical-gt-set", lambda: f"frame {i} ({d['frame']}): critical GTs {sorted(crit_idx)} but GTs inside manager+critical region are {exp_gt}")
    for a in res_est:
        if a is None:
            continue
        k, m = RF.keep_object(A.view(f["est"][a]), False, {k_: cc.get(k_) for k_ in RF.EST_KEYS})
        k0, m0 = RF.keep_object(A.view(f["est"][a]), False, {k_: mc.get(k_) for k_ in RF.EST_KEYS})
        if min(m, m0) < MARGIN:
            ctx.boundary()
            continue
        ctx.require(k and k0, "estimate-outside-critical-region-counted", lambda: f"frame {i} ({d['frame']}): estimate #{a} at {A.pos(f['est'][a])} label {f['est'][a]['label']} is counted but fails the {'critical' if not k else 'manager'} filter")

    # ---- completeness: the counted results are exactly the matcher's output restricted to the region -----
    if not skip:
        est_keep, eskip = [], False
        for a, e in enumerate(f["est"]):
            k0, m0 = RF.keep_object(A.view(e), False, {k_: mc.get(k_) for k_ in ("targets", "ignore", "max_x", "max_y", "max_d", "min_d", "conf")})
            if m0 < MARGIN:
                eskip = True
            if k0:
                est_keep.append(a)
        gt_keep = [j for j, g in enumerate(f["gt"]) if RF.keep_object(A.view(g), True, {k: mc.get(k) for k in RF.GT_KEYS})[0]]
        if eskip:
            ctx.boundary()
        else:
            from perception_eval.evaluation.result.object_result import get_object_results

            ee = [ests_in[a] for a in est_keep]
            gg = [gts_in[j] for j in gt_keep]
            ref = get_object_results(
                evaluation_task=D.task(d["task"]),
                estimated_objects=ee,
                ground_truth_objects=gg,
                target_labels=D.labels(d["targets"]),
                matching_label_policy=D.policy(d["policy"]),
                matchable_thresholds=d["mgr"].get("radii"),
                transforms=run["gt_frames"][i].transforms if A is Adapter3D else None,
            )
            exp_pairs, pskip = set(), False
            for r in ref:
                a = ei(r.estimated_object)
                b = gi(r.ground_truth_object) if r.ground_truth_object is not None else None
                k, m = RF.keep_result(A.view(f["est"][a]), A.view(f["gt"][b]) if b is not None else None, cc)
                if m < MARGIN:
                    pskip = True
                if k:
                    exp_pairs.add((a, b))
            got_pairs = {(ei(r.estimated_object), gi(r.ground_truth_object) if r.ground_truth_object is not None else None) for r in obj_results}
            if pskip:
                ctx.boundary()
            else:
                ctx.require(got_pairs == exp_pairs, "results-not-filtered-matching", lambda: f"frame {i} ({d['frame']}): counted results {sorted(got_pairs, key=str)} but matching of in-range objects restricted to the critical region gives {sorted(exp_pairs, key=str)}")

    # ---- classification ------------------------------------------------------------------------
    has_fp_gt = any(g["label"] == "false_positive" for g in f["gt"])
    removed = len(crit_idx) < sum(1 for g in f["gt"] if RF.keep_object(A.view(g), True, {k: mc.get(k) for k in RF.GT_KEYS})[0])
    if tp and fp and fn:
        ctx.cls("tp_fp_fn_frame")
    if has_fp_gt:
        ctx.cls("fp_labelled_gt")
    if removed:
        ctx.cls("critical_filter_removes")
    if tn:
        ctx.cls("has_tn")
    if any(k == "fp-matched" for k, _ in acc):
        ctx.cls("fp_matched_gt")
    return bool(tp and fp and fn) or has_fp_gt or removed


def _body(ctx, d):
    run = MG.run_case(ctx, d)
    if run is None:
        return
    ctx.cls("frame_" + d["frame"])
    ctx.cls("task_" + d["task"])
    nt = False
    for i in range(len(d["frames"])):
        nt = _check_frame(ctx, d, i, run) or nt
    ctx.mark_nontrivial(nt)


@CHECK.given("manager_frames", lambda tier: MG.with_uuid_variants(MG.manager_cases(tier)), quick=220, thorough=8000)
def manager_frames(ctx, d):
    _body(ctx, d)


@CHECK.given("manager_frames_crowded", lambda tier: MG.manager_cases(tier, crowded=True, max_frames=2), quick=50, thorough=2000)
def manager_frames_crowded(ctx, d):
    """Side-by-side annotations that differ only by a small translation, at large map coordinates."""
    _body(ctx, d)


# ---- 2D pipeline (detection2d / tracking2d / fp_validation2d; IoU2D pass/fail) --------------------


def _body2d(ctx, d):
    run = MG.run_case2d(ctx, d)
    if run is None:
        return
    ctx.cls("task_" + d["task"])
    nt = False
    for i in range(len(d["frames"])):
        nt = _check_frame(ctx, d, i, run, Adapter2D) or nt
    ctx.mark_nontrivial(nt)


@CHECK.given("manager_frames2d", lambda tier: MG.manager_cases2d(tier), quick=150, thorough=6000)
def manager_frames2d(ctx, d):
    _body2d(ctx, d)
