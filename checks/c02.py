"""C02 — label-compatible pairs first, then best score: no blocking pair; exact two-stage greedy without ties."""
from vlib import matchlib as M
from vlib.harness import Check

CHECK = Check(
    "C02",
    rule=(
        "scenes as C01 plus a 'contested' strategy (grid spacing 3 m, several estimates per GT, flipped/unknown "
        "labels) and an 'exact tie' strategy (mirror-image offsets, confidence ties); every label policy, matching "
        "mode, radius setting. Non-trivial = some GT has >=2 candidate estimates AND some candidate pair is "
        "label-incompatible; distinct by descriptor hash."
    ),
    assumptions=[
        "candidate set and ranking use the library's own MatchingMethod values, which are themselves compared with the "
        "reference geometry for every candidate pair (first 60 of a case; 1e-6 tolerance; the C06 known finding D19 is "
        "skipped as boundary); label compatibility is re-implemented from the statement",
        "exact greedy equality is asserted only when all candidate scores differ pairwise by more than 1e-9",
    ],
    design_ref="§6 C02",
)

TIE = 1e-9


def ref_greedy(cands, compat, maximize):
    """Documented two-stage greedy on a score dict {(i, j): score}; assumes no ties."""
    pairs = {}
    used_i, used_j = set(), set()
    for stage in (1, 2):
        while True:
            best = None
            for (i, j), s in cands.items():
                if i in used_i or j in used_j:
                    continue
                if stage == 1 and not compat[(i, j)]:
                    continue
                if best is None or (s > best[0] if maximize else s < best[0]):
                    best = (s, i, j)
            if best is None:
                break
            _, i, j = best
            pairs[i] = j
            used_i.add(i)
            used_j.add(j)
    return pairs


def _check(ctx, d):
    est, gt, tr = M.build(d)
    res = M.call_matcher(ctx, d, est, gt, tr)
    if res is None:
        return
    maximize = d["mode"] in ("IOU2D", "IOU3D")
    scores = M.lib_score_matrix(ctx, d, est, gt, tr)
    if not M.check_scores_against_reference(ctx, d, scores):
        return
    cands, compat = {}, {}
    for (i, j), s in scores.items():
        r = M.radius_for(d, d["gt"][j])
        if r is not None and not (s < r):
            continue
        cands[(i, j)] = s
        compat[(i, j)] = M.compatible(d["policy"], d["est"][i]["label"], d["gt"][j]["label"])

    matched = {}
    for r in res:
        if r.ground_truth_object is None:
            continue
        i, j = M.index_of(r.estimated_object, est), M.index_of(r.ground_truth_object, gt)
        if i is None or j is None:
            return  # C01's business
        matched[i] = j
    inv = {j: i for i, j in matched.items()}

    # classification
    per_gt = {}
    for i, j in cands:
        per_gt[j] = per_gt.get(j, 0) + 1
    contested = any(c >= 2 for c in per_gt.values())
    has_incompat = any(not c for c in compat.values())
    vals = sorted(cands.values())
    tie = any(b - a <= TIE for a, b in zip(vals, vals[1:]))
    ctx.mark_nontrivial(contested and has_incompat)
    if contested:
        ctx.cls("contested")
    if has_incompat:
        ctx.cls("incompatible_candidate")
    ctx.cls("tie" if tie else "no_tie")
    if any(compat[(i, j)] is False for i, j in matched.items() if (i, j) in compat):
        ctx.cls("stage2_match")

    def at_least(a, b):
        return a >= b if maximize else a <= b

    # no pair outside the candidate set
    for i, j in matched.items():
        ctx.require((i, j) in cands, "pair-not-matchable", f"estimate #{i} paired with GT #{j} which is not a matchable pair")
    if any((i, j) not in cands for i, j in matched.items()):
        return

    # (1) blocking pairs
    for (i, j), s in cands.items():
        if matched.get(i) == j:
            continue
        ok = False
        for a, b in ((i, matched.get(i)), (inv.get(j), j)):
            if a is None or b is None:
                continue
            if compat[(i, j)]:
                ok = ok or (compat[(a, b)] and at_least(cands[(a, b)], s))
            else:
                ok = ok or compat[(a, b)] or at_least(cands[(a, b)], s)
        ctx.require(
            ok,
            "blocking-compatible-pair" if compat[(i, j)] else "blocking-incompatible-pair",
            lambda: f"pair (est #{i}, GT #{j}) score {s} compatible={compat[(i, j)]} is unmatched although neither member "
            f"is matched {'compatibly and ' if compat[(i, j)] else 'compatibly or '}at least as well "
            f"(est->{matched.get(i)}, gt<-{inv.get(j)}; mode {d['mode']}, policy {d['policy']})",
        )

    # (2) exact greedy when no scores tie
    if not tie:
        ref = ref_greedy(cands, compat, maximize)
        ctx.require(
            ref == matched,
            "not-two-stage-greedy",
            lambda: f"matching {sorted(matched.items())} differs from the documented two-stage greedy {sorted(ref.items())} "
            f"(mode {d['mode']}, policy {d['policy']})",
        )


@CHECK.given("scenes3d", lambda tier: M.match_cases3d(tier), quick=200, thorough=10000)
def scenes3d(ctx, d):
    _check(ctx, d)


@CHECK.given("contested3d", lambda tier: M.match_cases3d(tier, contest=True), quick=200, thorough=10000)
def contested3d(ctx, d):
    _check(ctx, d)


@CHECK.given("ties3d", lambda tier: M.match_cases3d(tier, ties=True, contest=True), quick=100, thorough=5000)
def ties3d(ctx, d):
    _check(ctx, d)


@CHECK.given("scenes2d", lambda tier: M.match_cases2d(tier), quick=200, thorough=10000)
def scenes2d(ctx, d):
    _check(ctx, d)


@CHECK.given("ties2d", lambda tier: M.match_cases2d(tier, ties=True), quick=100, thorough=5000)
def ties2d(ctx, d):
    _check(ctx, d)
