"""C07 — evaluation results do not depend on the coordinate frame of the objects."""
from hypothesis import strategies as st

from vlib import mgrlib as MG
from vlib.harness import Check

CHECK = Check(
    "C07",
    rule=(
        "one ego-frame scene / tracker history (1-4 frames; independent scenes and consistent multi-frame tracks with id events, manager filter + narrower critical filter, pass/fail "
        "thresholds) evaluated twice through a real manager: objects expressed in base_link, and rendered into the "
        "map frame by the reference rigid transform with a generated ego pose per frame (translation up to 1e5 m, any "
        "yaw); detection and tracking tasks. Non-trivial = some frame has >=3 GTs, an object removed by a range "
        "filter, ego yaw != 0 and a TP whose heading differs from its GT by > 0.1 rad; distinct by descriptor hash."
    ),
    assumptions=[
        "only cases in which no range / radius / threshold / tie decision is within 1e-6 of its boundary (reference "
        "geometry) are compared on decisions; the others are still executed (crash detection) and counted as boundary",
        "AP / APH / MOTA are compared only when all estimate confidences of the case are distinct (ranking ties are decided "
        "by the order in which the matcher emits results)",
        "tolerance 1e-6 on scores and metrics (IoU: 1e-6 + 1e-13*|ego translation|/min box dimension)",
    ],
    design_ref="§6 C07",
)


def _tight_radii(t):
    d, how, no_tf = t
    if no_tf:
        # the ego-frame rendering is handed over without any transform (hand-built frames: base_link objects need no ego pose)
        d["bl_no_tf"] = True
    if how and d["thr"]["center"]:
        # matchable radii only a quarter above the first centre-distance row (estimates sit at 0.55 .. 1.6 times those
        # thresholds from their ground truths): many pairs lie in the outer part of the radius, where any frame-dependent
        # notion of "within the radius" shows
        d["mgr"]["radii"] = [1.25 * float(x) if float(x) > 0 else 1.5 for x in d["thr"]["center"][0]]
        d["tight_radii"] = True
    return d


def _cases(tier):
    return st.tuples(MG.manager_cases(tier, tasks=("detection", "tracking"), allow_map=False), st.sampled_from([True, True, False]), st.booleans()).map(_tight_radii)


def _tracking_cases(tier):
    from checks import c05

    return c05.tracking_histories(tier)


@CHECK.given("ego_vs_map", _cases, quick=130, thorough=4000)
def ego_vs_map(ctx, d):
    _compare(ctx, d)


@CHECK.given("ego_vs_map_tracking", _tracking_cases, quick=60, thorough=2500)
def ego_vs_map_tracking(ctx, d):
    """Consistent multi-frame tracks (persistent ids, switches, misses): MOTA / MOTP / ID switches in both frames."""
    _compare(ctx, d)


@CHECK.given("ego_vs_map_crowded", lambda tier: MG.manager_cases(tier, tasks=("detection", "tracking"), allow_map=False, crowded=True, max_frames=2), quick=45, thorough=2000)
def ego_vs_map_crowded(ctx, d):
    """Side-by-side annotations (< 1 m apart, otherwise identical) at map coordinates of 5e4..1e5 m: anything that
    compares positions with a tolerance relative to the coordinate magnitude behaves differently in the two frames."""
    _compare(ctx, d)


def _compare(ctx, d):
    import math

    ctx.cls("ego_frame_without_transforms" if d.get("bl_no_tf") else "ego_frame_with_transforms")
    a = MG.run_case(ctx, d, frame="base_link", what="add_frame_result(base_link)")
    b = MG.run_case(ctx, d, frame="map", what="add_frame_result(map)")
    if a is None or b is None:
        return
    ctx.cls("task_" + d["task"])
    margin = min(MG.frame_margin(d, f) for f in d["frames"])
    decisions = margin >= 1e-6
    if not decisions:
        ctx.boundary()
    # equal confidences are a tie in the AP ranking: the order in which the matcher emits results (decided by
    # floating-point noise between equal candidate distances of disjoint pairs) then changes AP/APH legitimately
    confs = [e["score"] for f in d["frames"] for e in f["est"]]
    conf_tie = len(set(confs)) < len(confs)
    if conf_tie:
        ctx.cls("confidence_tie_metrics_not_compared")
    nt = False
    for i, f in enumerate(d["frames"]):
        sa = MG.summarize_frame(a["results"][i], a["est_lists"][i], a["gt_frames"][i].objects)
        sb = MG.summarize_frame(b["results"][i], b["est_lists"][i], b["gt_frames"][i].objects)
        big = max(abs(f["ego"][0]), abs(f["ego"][1])) + 100.0
        dims = [min(o["size"][0], o["size"][1]) for o in f["gt"] + f["est"]] or [1.0]
        iou_tol = 1e-6 + 1e-13 * big / min(dims)
        tol = 1e-6 + 1e-11 * big
        MG.compare_summaries(
            ctx, sa, sb, f"frame{i}" if False else "ego-vs-map", tol=tol,
            score_tol={"cd": tol, "pd": tol, "iou2": iou_tol, "iou3": iou_tol}, decisions=decisions,
            metrics=len({e["score"] for e in f["est"]}) == len(f["est"]) and (d["task"] != "tracking" or not conf_tie),
        )
        # non-trivial classification
        removed = len(sa["crit_gt"]) < len(f["gt"]) or len(sa["pairs"]) < len(f["est"])
        tp_heading = False
        for e_idx in sa["tp"]:
            g_idx = sa["pairs"][e_idx]["gt"]
            if g_idx is not None:
                dy = abs(math.remainder(f["est"][e_idx]["yaw"] - f["gt"][g_idx]["yaw"], 2 * math.pi))
                tp_heading = tp_heading or dy > 0.1
        if removed:
            ctx.cls("range_filter_removes")
        if tp_heading:
            ctx.cls("tp_with_heading_difference")
        if abs(f["ego"][0]) > 1e3 or abs(f["ego"][1]) > 1e3:
            ctx.cls("large_translation")
        nt = nt or (len(f["gt"]) >= 3 and removed and f["ego"][2] != 0 and tp_heading)
    if decisions and len(d["frames"]) > 1 and d["task"] == "tracking":
        ctx.cls("tracking_history")
    # scene level
    sa, sb = None, None
    with ctx.under_test("get_scene_result"):
        sa = MG.summarize_score(a["mgr"].get_scene_result())
        sb = MG.summarize_score(b["mgr"].get_scene_result())
    if sa is not None and sb is not None and decisions and not conf_tie:
        ctx.require(sa["num_gt"] == sb["num_gt"], "ego-vs-map:scene-num-gt", lambda: f"{sa['num_gt']} vs {sb['num_gt']}")
        MG.compare_scores(ctx, sa, sb, "ego-vs-map:scene", tol=1e-6)
    ctx.mark_nontrivial(nt and decisions)
