"""C12 — sensing counts exactly the points inside each box; every object classified once.

Sub-checks
  box_crop   DynamicObject.crop_pointcloud / get_inside_pointcloud_num / point_exist on one box, up to three scales,
             a cloud generated *relative to the box* (well inside, well outside, just above / below, near a face,
             past a corner, lattice clutter, far clutter).
  prism_crop crop_pointcloud(cloud, area, inside) on polygonal prisms (convex / star-shaped concave, both vertex
             orientations, either plane first), reference = even-odd crossing test + boundary distance, shapely's
             `contains` as a second, differential opinion on the reference.
  frame      SensingFrameResult.evaluate_frame on hand-built ground truths, a SensingFrameConfig with
             distance-dependent scales and pre-cropped non-detection clouds.
  manager    SensingEvaluationManager.add_frame_result (a real manager from a real SensingEvaluationConfig) with
             hand-built FrameGroundTruth objects, raw cloud and non-detection prisms.

Oracles (reference geometry: vlib/ref_geom.py, no numpy/shapely inside): the rows returned as inside are the rows whose
reference margin to the scaled footprint and to [bottom, top] is > MARGIN; rows with |margin| <= MARGIN are
"boundary" (either answer accepted, counted); inside + outside = cloud as multisets of rows (exact, margin-free);
scale s <= s' => inside(s) is a sub-multiset of inside(s') (margin-free because s' = s or s' >= 1.001 s);
each target ground truth occurs in exactly one of success / fail / warning, warning iff visibility is NONE, else
success iff count >= min_points_threshold; non-detection failures per area = rows in the prism and outside every
scaled ground-truth box, areas without such rows omitted.
"""
import contextlib
import io
import math
from collections import Counter

from hypothesis import strategies as st

from vlib import desc as D
from vlib import gen as GEN
from vlib import ref_geom as G
from vlib.harness import Check, HarnessError, proc_tmp

CHECK = Check(
    "C12",
    rule=(
        "box_crop: one box (position +-10 / +-80 m, any yaw incl. multiples of pi/2, size 0.05..30 m, 1 in 5 with "
        "|roll|,|pitch| <= 0.1 or <= 0.7) x three scales s <= s' <= s'' (0.1..3, equal or >= 1.001 apart) x cloud of 0..2000 "
        "rows (N x 3/4/5, float64 or float32) built relative to the box: inside, xy-outside, above, below, near a "
        "face, past a corner, rotated lattice, far clutter. prism_crop: convex / star-shaped polygons (3..12 "
        "vertices, CCW and CW, any start vertex, lower or upper plane first) with points along rays through the "
        "boundary, points sharing a vertex's y, lattice. frame / manager: 0..5 (thorough 0..12) ground truths on "
        "distinct grid cells (boxes may overlap), scales box_scale_0m/100m in 0.5..2, threshold 0..10, visibility "
        "in {None, full, most, partial, none, not available}, 0..3 non-detection prisms placed on / off the boxes, "
        "optional target_uuids. Non-trivial = a yaw-only box with yaw not a multiple of pi/2 (|sin 2yaw| > 1e-3) "
        "having >= 1 row decided inside and >= 1 row decided outside within one (scaled) box diagonal of its centre; "
        "for prism_crop a polygon with >= 1 row decided inside and >= 1 decided outside within twice its radius. "
        "Distinct by descriptor hash."
    ),
    assumptions=[
        "P4: sensing objects and clouds are in base_link",
        "P1 relaxed for sensing: ground truths of a frame sit on distinct grid cells, except that one annotation may have a twin at "
        "exactly its pose with another size and id (the sensing pipeline keeps objects apart by identity)",
        "P3: positive box sizes; computed scale factors are positive (box_scale_* in 0.5..2, objects up to ~220 m away; the far end of the scale line is flattened when it would drop below 0.25)",
        "margin rule: a row whose reference margin to a face / polygon edge / z bound is <= 1e-6 m (float32 clouds: "
        "1e-5 * max(1, |coordinate|)) is classified boundary and either answer is accepted",
        "distance for the scale factor: the docs say 'distance from vehicle to target bounding box' — a row whose "
        "decision differs between the 3D-norm and the BEV-norm reading is classified boundary",
        "roll/pitch boxes: the scaled footprint is the orthogonal projection of the box's scaled base rectangle rotated "
        "by the full orientation (the polygon get_footprint returns and the IoU of C06 uses); bottom and top are the "
        "centre height -/+ h/2",
        "manager: the per-frame SensingFrameConfig, when given, carries the same scales and target_uuids as the "
        "manager's configuration (the manager pre-crops with its own scales); its threshold may differ and is the "
        "one that applies",
        "non-detection prisms have identical lower and upper polygons (documented TODO of crop_pointcloud)",
    ],
    design_ref="§6 C12",
)

MARGIN = 1e-6
PI = math.pi
fl = GEN.fl
SAMPLE_DATA = "/repo/perception_eval/test/sample_data"
VIS = [None, "full", "most", "partial", "none", "none", "not available"]
POINT_KINDS = ["in", "in", "in", "out", "out", "above", "below", "face", "zface", "corner", "out_above"]


# ------------------------------------------------------------------------------------------------
# strategies (descriptors only)
# ------------------------------------------------------------------------------------------------


@st.composite
def rel_point(draw):
    """[kind, fu, fv, fw]: fractions of the scaled half length / half width / half height of a box."""
    kind = draw(st.sampled_from(POINT_KINDS))
    sgn = st.sampled_from([-1.0, 1.0])
    inn = fl(-0.98, 0.98)
    small = st.sampled_from([1e-4, 1e-3, 1e-2, 5e-2])
    if kind == "in":
        f = [draw(inn), draw(inn), draw(inn)]
    elif kind == "out":
        a, b = draw(sgn) * draw(fl(1.02, 1.8)), draw(fl(-1.6, 1.6))
        f = [a, b, draw(inn)] if draw(st.booleans()) else [b, a, draw(inn)]
    elif kind == "above":
        f = [draw(inn), draw(inn), 1.0 + draw(st.one_of(small, fl(1e-3, 0.8)))]
    elif kind == "below":
        f = [draw(inn), draw(inn), -1.0 - draw(st.one_of(small, fl(1e-3, 0.8)))]
    elif kind == "face":
        a, b = draw(sgn) * (1.0 + draw(sgn) * draw(small)), draw(inn)
        f = [a, b, draw(inn)] if draw(st.booleans()) else [b, a, draw(inn)]
    elif kind == "zface":
        f = [draw(inn), draw(inn), draw(sgn) * (1.0 - draw(small))]
    elif kind == "corner":
        f = [draw(sgn) * draw(fl(1.01, 1.4)), draw(sgn) * draw(fl(1.01, 1.4)), draw(inn)]
    else:  # out_above: outside in xy and in z
        f = [draw(sgn) * draw(fl(1.02, 1.8)), draw(inn), draw(sgn) * draw(fl(1.01, 1.8))]
    return [kind] + f


@st.composite
def lattices(draw, tier, big_ok=True):
    """Rotated lattice: {"c": centre offset (fractions), "span": half extents (fractions), "ang", "n": [nx, ny, nz]}."""
    big = big_ok and draw(st.integers(0, 9 if tier == "quick" else 4)) == 0
    if big:
        nx, ny, nz = draw(st.integers(10, 31)), draw(st.integers(10, 31)), draw(st.integers(1, 2))
    else:
        nx, ny, nz = draw(st.integers(1, 12)), draw(st.integers(1, 12)), draw(st.integers(1, 3))
    while nx * ny * nz > 2000:
        nz = max(1, nz - 1)
        nx -= 1
    return {
        "c": [draw(fl(-0.8, 0.8)), draw(fl(-0.8, 0.8)), draw(fl(-0.5, 0.5))],
        "span": [draw(fl(0.3, 2.5)), draw(fl(0.3, 2.5)), draw(fl(0.2, 1.8))],
        "ang": draw(st.one_of(st.just(0.0), fl(-PI, PI))),
        "n": [nx, ny, nz],
    }


@st.composite
def one_box(draw, tilt=True):
    r = draw(st.sampled_from([10.0, 80.0, 80.0]))
    o = {
        "p": [draw(fl(-r, r)), draw(fl(-r, r)), draw(fl(-3.0, 3.0))],
        "yaw": draw(GEN.yaws()),
        "qs": draw(GEN.qsigns()),
        "size": draw(GEN.sizes()),
        "label": "car",
    }
    if tilt and draw(st.integers(0, 4)) == 0:
        t = draw(st.sampled_from([0.1, 0.7, 0.7]))
        o["pr"] = [draw(fl(-t, t)), draw(fl(-t, t))]
    return o


def sized(elem, hi, lo=0):
    """List whose length is drawn uniformly (st.lists is biased towards short lists); empty stays reachable."""
    return GEN.counts(lo, hi).flatmap(lambda n: st.lists(elem, min_size=n, max_size=n))


def scales3():
    base = st.one_of(st.just(1.0), fl(0.1, 3.0), fl(0.5, 1.5))
    fac = st.one_of(st.just(1.0), fl(1.001, 2.0))
    return st.tuples(base, fac, fac).map(lambda t: [t[0], t[0] * t[1], t[0] * t[1] * t[2]])


def cloud_formats():
    return st.tuples(st.sampled_from([3, 4, 4, 5]), st.sampled_from(["f8", "f8", "f8", "f8", "f8", "f4"]))


@st.composite
def box_cases(draw, tier):
    npts = 30 if tier == "quick" else 60
    cols, dt = draw(cloud_formats())
    d = {
        "box": draw(one_box()),
        "scales": draw(scales3()),
        "ref": draw(st.integers(0, 2)),
        "cols": cols,
        "dt": dt,
        "pts": draw(sized(rel_point(), npts)),
        "lat": draw(st.one_of(st.none(), lattices(tier), lattices(tier))),
        "far": draw(st.lists(st.tuples(fl(-150, 150), fl(-150, 150), fl(-5, 5)).map(list), max_size=4)),
    }
    return d


@st.composite
def prisms(draw, centre=None, radius=None):
    kind = draw(st.sampled_from(["convex", "star", "star"]))
    n = draw(st.integers(3, 10)) if kind == "convex" else draw(st.integers(4, 12))
    lo = 0.2 if kind == "convex" else 0.4
    z0 = draw(fl(-3.0, 1.0))
    return {
        "kind": kind,
        "c": list(centre) if centre is not None else [draw(fl(-60, 60)), draw(fl(-60, 60))],
        "R": radius if radius is not None else draw(fl(0.5, 25.0)),
        "ax": [draw(fl(0.3, 1.0)), draw(fl(0.3, 1.0))],
        "w": draw(st.lists(fl(lo, 1.0), min_size=n, max_size=n)),
        "rad": [1.0] * n if kind == "convex" else draw(st.lists(fl(0.25, 1.0), min_size=n, max_size=n)),
        "rot": draw(st.one_of(st.just(0.0), fl(-PI, PI))),
        "cw": draw(st.booleans()),
        "shift": draw(st.integers(0, n - 1)),
        "z": [z0, z0 + draw(fl(0.3, 6.0))],
        "upper_first": draw(st.booleans()),
        "tuples": draw(st.booleans()),
    }


@st.composite
def prism_point(draw, n):
    """[kind, edge, lam, t, fz]: point on the ray from the generation centre through a boundary point."""
    kind = draw(st.sampled_from(["in", "in", "out", "out", "near", "above", "below"]))
    fz = draw(fl(0.02, 0.98))
    if kind in ("in", "above", "below"):
        t = draw(fl(0.0, 0.97))
    elif kind == "out":
        t = draw(fl(1.03, 2.5))
    else:
        t = 1.0 + draw(st.sampled_from([-1.0, 1.0])) * draw(st.sampled_from([1e-4, 1e-3, 1e-2]))
    if kind == "above":
        fz = 1.0 + draw(st.one_of(st.sampled_from([1e-4, 1e-3, 1e-2]), fl(1e-3, 1.0)))
    if kind == "below":
        fz = -draw(st.one_of(st.sampled_from([1e-4, 1e-3, 1e-2]), fl(1e-3, 1.0)))
    return [kind, draw(st.integers(0, n - 1)), draw(fl(0.0, 1.0)), t, fz]


@st.composite
def prism_cases(draw, tier):
    pd = draw(prisms())
    n = len(pd["w"])
    cols, dt = draw(cloud_formats())
    npts = 30 if tier == "quick" else 60
    return {
        "prism": pd,
        "cols": cols,
        "dt": dt,
        "pts": draw(sized(prism_point(n), npts)),
        # points sharing the y of a vertex exactly: [vertex, dx (fraction of R), fz]
        "vy": draw(st.lists(st.tuples(st.integers(0, n - 1), fl(-2.0, 2.0), fl(-0.3, 1.3)).map(list), max_size=6)),
        "lat": draw(st.one_of(st.none(), lattices(tier), lattices(tier))),
    }


@st.composite
def frame_cases(draw, tier, manager):
    max_gt = 5 if tier == "quick" else 12
    n_gt = draw(GEN.counts(0, max_gt))
    S = draw(st.sampled_from([4.0, 8.0, 15.0, 30.0]))  # 30 m cells: annotated objects beyond the 100 m anchor of the scale line
    rg = 5
    cells = draw(st.lists(st.tuples(st.integers(-rg, rg), st.integers(-rg, rg)), min_size=n_gt, max_size=n_gt, unique=True))
    gt = []
    for i, (cx, cy) in enumerate(cells):
        gt.append(
            {
                "p": [cx * S + draw(fl(-S / 5, S / 5)), cy * S + draw(fl(-S / 5, S / 5)), draw(fl(-2.0, 2.0))],
                "yaw": draw(GEN.yaws()),
                "qs": draw(GEN.qsigns()),
                "size": draw(GEN.sizes()),
                "label": draw(st.sampled_from(["car", "pedestrian", "bicycle", "unknown"])),
                "uuid": f"g{i}",
                "vis": draw(st.sampled_from(VIS)),
                # k rows on the box's space diagonal, well inside: makes counts straddle the threshold
                "fill": draw(st.integers(0, 8)),
            }
        )
        if draw(st.integers(0, 4)) == 0:
            gt[-1]["pr"] = [draw(fl(-0.4, 0.4)), draw(fl(-0.4, 0.4))]  # annotated box with roll / pitch
    if gt and len(gt) < max_gt and draw(st.integers(0, 3)) == 0:
        # a second annotation at exactly the pose of another one (nested boxes around one centre: other size, other id):
        # still a separate ground-truth object with its own verdict
        g = gt[draw(st.integers(0, len(gt) - 1))]
        f = draw(st.sampled_from([0.5, 0.7, 1.4, 2.0]))
        twin = dict(g, size=[g["size"][0] * f, g["size"][1] * f, g["size"][2]], uuid=f"g{len(gt)}", fill=draw(st.integers(0, 4)))
        gt.append(twin)
    sc = st.one_of(st.just(1.0), fl(0.5, 2.0))
    cfg = {
        "s0": draw(sc),
        "s100": draw(sc),
        "thr": draw(st.one_of(st.sampled_from([1, 2, 3, 5, 8]), st.integers(0, 10))),
    }
    if gt:
        # (P3) the scale line must stay positive at the farthest annotated object (cells reach beyond the 100 m anchor)
        far = max(math.sqrt(sum(c * c for c in g["p"])) for g in gt)
        if cfg["s0"] + 0.01 * (cfg["s100"] - cfg["s0"]) * far < 0.25:
            cfg["s100"] = cfg["s0"]
    if manager:
        cfg["uuids"] = None
        if gt and draw(st.integers(0, 2)) == 0:
            cfg["uuids"] = draw(st.lists(st.sampled_from([g["uuid"] for g in gt] + ["zz"]), min_size=1, max_size=4, unique=True))
        cfg["explicit"] = draw(st.booleans())
        cfg["fthr"] = draw(st.one_of(st.none(), st.integers(0, 6)))
    n_ar = draw(st.integers(0, 3))
    areas = []
    for _ in range(n_ar):
        if gt and draw(st.integers(0, 3)) > 0:
            g = gt[draw(st.integers(0, len(gt) - 1))]
            r = draw(fl(1.0, 12.0))
            areas.append(draw(prisms(centre=[g["p"][0] + draw(fl(-r / 2, r / 2)), g["p"][1] + draw(fl(-r / 2, r / 2))], radius=r)))
        else:
            areas.append(draw(prisms()))
    if manager and cfg.get("uuids"):
        # by construction: a non-detection area around an annotated object that is NOT a target, with rows inside its box
        # (its box must still be cut out of the non-detection cloud)
        excluded = [g for g in gt if g["uuid"] not in cfg["uuids"]]
        if excluded and draw(st.booleans()):
            g = excluded[draw(st.integers(0, len(excluded) - 1))]
            g["fill"] = max(g["fill"], 3)
            area = draw(prisms(centre=[g["p"][0], g["p"][1]], radius=draw(fl(3.0, 12.0))))
            if areas:
                areas[0] = area
            else:
                areas.append(area)
    npts = 25 if tier == "quick" else 50
    pts = []
    if gt:
        pts = draw(sized(st.tuples(st.integers(0, len(gt) - 1), rel_point()).map(lambda t: [t[0]] + t[1]), npts))
    apts = []
    if areas:
        m = draw(st.integers(0, npts))
        for _ in range(m):
            a = draw(st.integers(0, len(areas) - 1))
            apts.append([a] + draw(prism_point(len(areas[a]["w"]))))
    lat = None
    if draw(st.booleans()):
        lat = draw(lattices(tier, big_ok=tier != "quick"))
        if gt and draw(st.booleans()):
            lat["anchor"] = ["gt", draw(st.integers(0, len(gt) - 1))]
        elif areas:
            lat["anchor"] = ["area", draw(st.integers(0, len(areas) - 1))]
        else:
            lat["anchor"] = ["abs", draw(fl(-60, 60)), draw(fl(-60, 60)), draw(fl(2.0, 30.0))]
    out = {"gt": gt, "cfg": cfg, "areas": areas, "pts": pts, "apts": apts, "lat": lat, "cols": draw(st.sampled_from([3, 4, 4]))}
    if not manager:
        # instance ids are optional (`uuid: Optional[str] = None`) and only meaningful for target_uuids, which the direct frame
        # evaluation here does not use: hand-built ground truths carry none, or one id for several annotations
        out["uuid_mode"] = draw(st.sampled_from(["unique", "unique", "none", "shared"]))
    return out


# ------------------------------------------------------------------------------------------------
# descriptor -> numbers (own arithmetic; the library is not involved)
# ------------------------------------------------------------------------------------------------


def _box_point(b, s, f):
    cx, cy, cz = b["p"]
    w, l, h = b["size"]
    c, sn = math.cos(b["yaw"]), math.sin(b["yaw"])
    u, v = f[0] * s * l / 2, f[1] * s * w / 2
    return [cx + c * u - sn * v, cy + sn * u + c * v, cz + f[2] * h / 2]


def _lattice(lat, centre, yaw, hx, hy, hz):
    """Rows of a lattice rotated by lat["ang"] inside a local frame (centre, yaw) with half extents hx, hy, hz."""
    nx, ny, nz = lat["n"]
    ca, sa = math.cos(lat["ang"]), math.sin(lat["ang"])
    c, sn = math.cos(yaw), math.sin(yaw)
    out = []
    for i in range(nx):
        a = ((i + 0.5) / nx - 0.5) * 2 * lat["span"][0] * hx
        for j in range(ny):
            b = ((j + 0.5) / ny - 0.5) * 2 * lat["span"][1] * hy
            u = lat["c"][0] * hx + ca * a - sa * b
            v = lat["c"][1] * hy + sa * a + ca * b
            x, y = centre[0] + c * u - sn * v, centre[1] + sn * u + c * v
            for k in range(nz):
                z = centre[2] + (lat["c"][2] + ((k + 0.5) / nz - 0.5) * 2 * lat["span"][2]) * hz
                out.append([x, y, z])
    return out


def _prism_poly(pd):
    n = len(pd["w"])
    tot = sum(pd["w"])
    acc, verts = 0.0, []
    for k in range(n):
        th = pd["rot"] + 2 * PI * acc / tot
        acc += pd["w"][k]
        r = pd["R"] * pd["rad"][k]
        verts.append((pd["c"][0] + r * pd["ax"][0] * math.cos(th), pd["c"][1] + r * pd["ax"][1] * math.sin(th)))
    if pd["cw"]:
        verts.reverse()
    k = pd["shift"] % n
    return verts[k:] + verts[:k]


def _prism_area(pd, poly):
    z0, z1 = pd["z"]
    first, second = (z1, z0) if pd["upper_first"] else (z0, z1)
    area = [(x, y, first) for x, y in poly] + [(x, y, second) for x, y in poly]
    return area if pd["tuples"] else [list(p) for p in area]


def _prism_gen_centre(pd, poly):
    if pd["kind"] == "star":
        return (pd["c"][0], pd["c"][1])
    return (sum(p[0] for p in poly) / len(poly), sum(p[1] for p in poly) / len(poly))


def _prism_point(pd, poly, q):
    _, k, lam, t, fz = q
    n = len(poly)
    a, b = poly[k % n], poly[(k + 1) % n]
    bx, by = a[0] + lam * (b[0] - a[0]), a[1] + lam * (b[1] - a[1])
    gx, gy = _prism_gen_centre(pd, poly)
    z0, z1 = pd["z"]
    return [gx + t * (bx - gx), gy + t * (by - gy), z0 + fz * (z1 - z0)]


def _is_concave(poly):
    n = len(poly)
    pos = neg = False
    for i in range(n):
        (x0, y0), (x1, y1), (x2, y2) = poly[i], poly[(i + 1) % n], poly[(i + 2) % n]
        cr = (x1 - x0) * (y2 - y1) - (y1 - y0) * (x2 - x1)
        pos = pos or cr > 0
        neg = neg or cr < 0
    return pos and neg


def _make_cloud(rows3, cols, dt):
    """numpy array (N, cols): x, y, z [, row index [, constant]] and the list of row tuples as stored."""
    import numpy as np

    rows = []
    for i, r in enumerate(rows3):
        row = [r[0], r[1], r[2]]
        if cols >= 4:
            row.append(float(i))
        if cols >= 5:
            row.append(0.5)
        rows.append(row)
    dtype = np.float32 if dt == "f4" else np.float64
    arr = np.array(rows, dtype=dtype).reshape(len(rows), cols)
    return arr, [tuple(r) for r in arr.tolist()]


def _rows(a):
    return [tuple(r) for r in a.tolist()]


def _margin_for(dt, vals):
    if dt == "f4":
        return 1e-5 * max(1.0, max((abs(v) for v in vals), default=0.0))
    return MARGIN


def _cls_margin(m, mg):
    return "in" if m > mg else ("out" if m < -mg else "unc")


_FP_CACHE = {}


def _is_tilted(b):
    return bool(b.get("pr")) and (b["pr"][0] != 0.0 or b["pr"][1] != 0.0)


def _box_margin(b, s, row):
    if _is_tilted(b):
        key = (tuple(b["p"]), b["yaw"], b.get("qs", 1), tuple(b["pr"]), tuple(b["size"]), s)
        poly = _FP_CACHE.get(key)
        if poly is None:
            if len(_FP_CACHE) > 256:
                _FP_CACHE.clear()
            poly = _FP_CACHE[key] = _tilted_footprint(b, s)
        return _tilted_margin(b, s, row, poly)
    w, l, h = b["size"]
    mxy = G.point_in_box_local((row[0], row[1]), b["p"][0], b["p"][1], b["yaw"], w, l, s)
    return min(mxy, h / 2 - abs(row[2] - b["p"][2]))


def _tilted_footprint(b, s):
    """Footprint of a box with roll/pitch: the orthogonal projection of its scaled base rectangle, rotated by the full
    orientation, onto the ground plane (a parallelogram) — the polygon C06 calls the box's footprint."""
    w, l, _ = b["size"]
    q = D.obj_quat(b)
    out = []
    for fx, fy in ((1, 1), (-1, 1), (-1, -1), (1, -1)):
        v = G.q_rotate(q, (fx * s * l / 2, fy * s * w / 2, 0.0))
        out.append((b["p"][0] + v[0], b["p"][1] + v[1]))
    return out


def _tilted_margin(b, s, row, poly):
    d = G.dist_point_polygon_boundary((row[0], row[1]), poly)
    mxy = d if G.point_in_polygon((row[0], row[1]), poly) else -d
    return min(mxy, b["size"][2] / 2 - abs(row[2] - b["p"][2]))


def _prism_margin(poly, z0, z1, row):
    d = G.dist_point_polygon_boundary((row[0], row[1]), poly)
    mxy = d if G.point_in_polygon((row[0], row[1]), poly) else -d
    return min(mxy, row[2] - z0, z1 - row[2]), mxy


def _shapely_second_opinion(poly, rows, mxys, mg):
    """The reference's xy decision must agree with shapely for every row that is not within the margin."""
    import numpy as np
    import shapely
    from shapely.geometry import Polygon

    idx = [i for i, m in enumerate(mxys) if abs(m) > mg]
    if not idx:
        return
    sp = Polygon(poly)
    got = shapely.contains_xy(sp, np.array([rows[i][0] for i in idx]), np.array([rows[i][1] for i in idx]))
    for i, g in zip(idx, got.tolist()):
        if bool(g) != (mxys[i] > 0):
            raise HarnessError(f"reference point-in-polygon disagrees with shapely at row {rows[i]} (margin {mxys[i]}) for {poly}")


def _yaw_generic(yaw):
    return abs(math.sin(2 * yaw)) > 1e-3


# ------------------------------------------------------------------------------------------------
# multiset comparison with a boundary class
# ------------------------------------------------------------------------------------------------


def _check_selection(ctx, got_rows, rows, cls, sig, what):
    """`got_rows` must contain every row classified 'in', may contain rows classified 'unc', nothing else."""
    need, maybe = Counter(), Counter()
    for t, c in zip(rows, cls):
        if c == "in":
            need[t] += 1
        elif c == "unc":
            maybe[t] += 1
    got = Counter(got_rows)
    for t, n in need.items():
        if got[t] < n:
            ctx.violate(f"{sig}:inside-row-missing", f"{what}: row {t} (index {rows.index(t)}) is inside by the reference but was not returned ({got[t]} of {n})")
            return False
    allrows = None
    for t, n in got.items():
        if n > need[t] + maybe[t]:
            if allrows is None:
                allrows = Counter(rows)
            if allrows[t] == 0:
                ctx.violate(f"{sig}:row-not-from-cloud", f"{what}: returned row {t} is not a row of the input cloud")
            else:
                ctx.violate(f"{sig}:outside-row-returned", f"{what}: row {t} (index {rows.index(t)}) is outside by the reference but was returned ({n}x, allowed {need[t] + maybe[t]})")
            return False
    return True


def _shape_ok(ctx, a, arr, sig, what):
    ok = hasattr(a, "ndim") and a.ndim == 2 and a.shape[1] == arr.shape[1] and a.dtype == arr.dtype
    ctx.require(ok, f"{sig}:shape", lambda: f"{what}: returned {type(a).__name__} shape {getattr(a, 'shape', None)} dtype {getattr(a, 'dtype', None)} for a cloud {arr.shape} {arr.dtype}")
    return ok


# ------------------------------------------------------------------------------------------------
# box_crop
# ------------------------------------------------------------------------------------------------


@CHECK.given("box_crop", lambda tier: box_cases(tier), quick=400, thorough=8000)
def box_crop(ctx, d):
    b = d["box"]
    tilted = bool(b.get("pr")) and (b["pr"][0] != 0.0 or b["pr"][1] != 0.0)
    s_ref = d["scales"][d["ref"]]
    w, l, h = b["size"]
    rows3 = [_box_point(b, s_ref, q[1:]) for q in d["pts"]]
    if d["lat"]:
        rows3 += _lattice(d["lat"], b["p"], b["yaw"], s_ref * l / 2, s_ref * w / 2, h / 2)
    rows3 += [list(p) for p in d["far"]]
    arr, rows = _make_cloud(rows3, d["cols"], d["dt"])
    obj = D.obj3d(b)

    ctx.cls("tilted" if tilted else ("yaw_generic" if _yaw_generic(b["yaw"]) else "yaw_axis_aligned"))
    ctx.cls(f"cols{d['cols']}")
    ctx.cls(d["dt"])
    ctx.cls("cloud_empty" if not rows else ("cloud_gt500" if len(rows) > 500 else "cloud_le500"))
    if any(s != 1.0 for s in d["scales"]):
        ctx.cls("scale_ne_1")

    mg = _margin_for(d["dt"], [b["p"][0], b["p"][1], b["p"][2]] + [v for r in rows for v in r[:3]] if d["dt"] == "f4" else [])
    prev = None
    nontrivial = False
    for s in d["scales"]:
        ins = outs = num = ex = None
        with ctx.under_test("DynamicObject.crop_pointcloud"):
            if s == 1.0:
                ins = obj.crop_pointcloud(arr)
            else:
                ins = obj.crop_pointcloud(arr, s)
            outs = obj.crop_pointcloud(arr, bbox_scale=s, inside=False)
        with ctx.under_test("DynamicObject.get_inside_pointcloud_num"):
            num = obj.get_inside_pointcloud_num(arr, s)
            ex = obj.point_exist(arr, s)
        if ins is None or outs is None or num is None or ex is None:
            return
        if not (_shape_ok(ctx, ins, arr, "box", "crop_pointcloud(inside)") and _shape_ok(ctx, outs, arr, "box", "crop_pointcloud(outside)")):
            return
        rin, rout = _rows(ins), _rows(outs)
        cin = Counter(rin)
        # partition (margin-free)
        ctx.require(
            cin + Counter(rout) == Counter(rows),
            "box:partition",
            lambda: f"scale {s}: inside ({len(rin)}) + outside ({len(rout)}) is not the cloud ({len(rows)} rows)",
        )
        ctx.require(num == len(rin), "box:count-mismatch", lambda: f"get_inside_pointcloud_num {num} vs {len(rin)} rows from crop_pointcloud (scale {s})")
        ctx.require(bool(ex) == (num > 0), "box:point-exist", lambda: f"point_exist {ex} with {num} points inside")
        # monotonicity (margin-free: equal scales or >= 0.1 % apart)
        if prev is not None:
            ps, pc = prev
            lost = pc - cin
            ctx.require(not lost, "box:scale-monotonicity", lambda: f"rows {list(lost)[:3]} inside at scale {ps} but not at scale {s}")
        prev = (s, cin)
        # exact inside set against the reference
        if tilted:
            poly = _tilted_footprint(b, s)
            cls = [_cls_margin(_tilted_margin(b, s, r, poly), mg) for r in rows]
        else:
            cls = [_cls_margin(_box_margin(b, s, r), mg) for r in rows]
        nb = cls.count("unc")
        if nb:
            ctx.boundary()
        ctx.cls("rows_in", cls.count("in"))
        ctx.cls("rows_out", cls.count("out"))
        ctx.cls("rows_boundary", nb)
        if not _check_selection(ctx, rin, rows, cls, "box", f"crop_pointcloud(scale={s})"):
            return
        flip = {"in": "out", "out": "in", "unc": "unc"}
        if not _check_selection(ctx, rout, rows, [flip[c] for c in cls], "box-outside", f"crop_pointcloud(scale={s}, inside=False)"):
            return
        diag = math.sqrt((s * w) ** 2 + (s * l) ** 2 + h**2)
        near_out = any(c == "out" and math.dist(r[:3], b["p"]) <= diag for c, r in zip(cls, rows))
        if _yaw_generic(b["yaw"]) and "in" in cls and near_out:
            nontrivial = True
    if any(q[0] in ("above", "below") for q in d["pts"]):
        ctx.cls("has_above_below")
    ctx.mark_nontrivial(nontrivial)


# ------------------------------------------------------------------------------------------------
# prism_crop
# ------------------------------------------------------------------------------------------------


@CHECK.given("prism_crop", lambda tier: prism_cases(tier), quick=300, thorough=6000)
def prism_crop(ctx, d):
    from perception_eval.common.point import crop_pointcloud

    pd = d["prism"]
    poly = _prism_poly(pd)
    area = _prism_area(pd, poly)
    z0, z1 = pd["z"]
    rows3 = [_prism_point(pd, poly, q) for q in d["pts"]]
    for k, dx, fz in d["vy"]:
        vx, vy = poly[k % len(poly)]
        rows3.append([vx + dx * pd["R"], vy, z0 + fz * (z1 - z0)])
    if d["lat"]:
        rows3 += _lattice(d["lat"], (pd["c"][0], pd["c"][1], (z0 + z1) / 2), 0.0, 0.6 * pd["R"], 0.6 * pd["R"], (z1 - z0) / 2)
    arr, rows = _make_cloud(rows3, d["cols"], d["dt"])

    concave = _is_concave(poly)
    ctx.cls("concave" if concave else "convex")
    ctx.cls("cw" if G.poly_area(poly) < 0 else "ccw")
    ctx.cls(d["dt"])
    ctx.cls(f"cols{d['cols']}")
    ctx.cls("upper_first" if pd["upper_first"] else "lower_first")
    if not rows:
        ctx.cls("cloud_empty")
    if d["vy"]:
        ctx.cls("has_vertex_y_rows")

    ins = outs = None
    with ctx.under_test("crop_pointcloud"):
        ins = crop_pointcloud(arr, area)
        ins2 = crop_pointcloud(arr, area, inside=True)
        outs = crop_pointcloud(arr, area, inside=False)
    if ins is None or outs is None:
        return
    if not (_shape_ok(ctx, ins, arr, "prism", "crop_pointcloud(inside)") and _shape_ok(ctx, outs, arr, "prism", "crop_pointcloud(outside)")):
        return
    rin, rout = _rows(ins), _rows(outs)
    ctx.require(rin == _rows(ins2), "prism:default-inside", "crop_pointcloud(cloud, area) differs from crop_pointcloud(cloud, area, inside=True)")
    ctx.require(
        Counter(rin) + Counter(rout) == Counter(rows),
        "prism:partition",
        lambda: f"inside ({len(rin)}) + outside ({len(rout)}) is not the cloud ({len(rows)} rows)",
    )
    mg = _margin_for(d["dt"], [v for p in poly for v in p] + [v for r in rows for v in r[:3]] if d["dt"] == "f4" else [])
    ms = [_prism_margin(poly, z0, z1, r) for r in rows]
    _shapely_second_opinion(poly, rows, [m[1] for m in ms], mg)
    cls = [_cls_margin(m[0], mg) for m in ms]
    nb = cls.count("unc")
    if nb:
        ctx.boundary()
    ctx.cls("rows_in", cls.count("in"))
    ctx.cls("rows_out", cls.count("out"))
    ctx.cls("rows_boundary", nb)
    if not _check_selection(ctx, rin, rows, cls, "prism", "crop_pointcloud(inside=True)"):
        return
    flip = {"in": "out", "out": "in", "unc": "unc"}
    if not _check_selection(ctx, rout, rows, [flip[c] for c in cls], "prism-outside", "crop_pointcloud(inside=False)"):
        return
    near_out = any(c == "out" and math.hypot(r[0] - pd["c"][0], r[1] - pd["c"][1]) <= 2 * pd["R"] for c, r in zip(cls, rows))
    ctx.mark_nontrivial("in" in cls and near_out)


# ------------------------------------------------------------------------------------------------
# frames: evaluate_frame and the manager
# ------------------------------------------------------------------------------------------------


def _scales_of(g, cfg):
    x, y, z = g["p"]
    slope = 0.01 * (cfg["s100"] - cfg["s0"])
    return slope * math.sqrt(x * x + y * y + z * z) + cfg["s0"], slope * math.hypot(x, y) + cfg["s0"]


def _frame_cloud(d):
    cfg = d["cfg"]
    rows3 = []
    for q in d["pts"]:
        g = d["gt"][q[0]]
        rows3.append(_box_point(g, _scales_of(g, cfg)[0], q[2:]))
    for g in d["gt"]:
        k = g.get("fill", 0)
        s = _scales_of(g, cfg)[0]
        for j in range(k):
            f = -0.9 + 1.8 * (j + 0.5) / k
            rows3.append(_box_point(g, s, [f, f, f]))
    polys = [_prism_poly(pd) for pd in d["areas"]]
    for q in d["apts"]:
        rows3.append(_prism_point(d["areas"][q[0]], polys[q[0]], q[1:]))
    lat = d["lat"]
    if lat:
        a = lat["anchor"]
        if a[0] == "gt":
            g = d["gt"][a[1]]
            w, l, h = g["size"]
            s = _scales_of(g, cfg)[0]
            rows3 += _lattice(lat, g["p"], g["yaw"], s * l / 2, s * w / 2, h / 2)
        elif a[0] == "area":
            pd = d["areas"][a[1]]
            rows3 += _lattice(lat, (pd["c"][0], pd["c"][1], (pd["z"][0] + pd["z"][1]) / 2), 0.0, pd["R"], pd["R"], (pd["z"][1] - pd["z"][0]) / 2)
        else:
            rows3 += _lattice(lat, (a[1], a[2], 0.5), 0.0, a[3], a[3], 2.0)
    return rows3, polys


def _frame_reference(ctx, d, rows, polys):
    """Per ground truth and per area: class of every row ('in' / 'out' / 'unc')."""
    cfg = d["cfg"]
    box_cls = []
    for g in d["gt"]:
        s3, s2 = _scales_of(g, cfg)
        if s3 <= 0 or s2 <= 0:
            raise HarnessError(f"generator produced a non-positive scale {s3} / {s2}")
        col = []
        for r in rows:
            c3 = _cls_margin(_box_margin(g, s3, r), MARGIN)
            c2 = c3 if s2 == s3 else _cls_margin(_box_margin(g, s2, r), MARGIN)
            col.append(c3 if c3 == c2 else "unc")
        box_cls.append(col)
    area_cls = []
    for pd, poly in zip(d["areas"], polys):
        ms = [_prism_margin(poly, pd["z"][0], pd["z"][1], r) for r in rows]
        _shapely_second_opinion(poly, rows, [m[1] for m in ms], MARGIN)
        area_cls.append([_cls_margin(m[0], MARGIN) for m in ms])
    return box_cls, area_cls


def _classify_frame(ctx, d, box_cls, rows):
    any_nt = False
    for g, col in zip(d["gt"], box_cls):
        s = _scales_of(g, d["cfg"])[0]
        w, l, h = g["size"]
        diag = math.sqrt((s * w) ** 2 + (s * l) ** 2 + h**2)
        if _yaw_generic(g["yaw"]) and "in" in col and any(c == "out" and math.dist(r[:3], g["p"]) <= diag for c, r in zip(col, rows)):
            any_nt = True
    ctx.mark_nontrivial(any_nt)
    ctx.cls("gt_none" if not d["gt"] else "gt_some")
    ctx.cls("areas_none" if not d["areas"] else "areas_some")
    if d["cfg"]["s0"] != d["cfg"]["s100"]:
        ctx.cls("distance_dependent_scale")


def _check_detection(ctx, d, res, rows, box_cls, thr, targets, sig, objs=None):
    """Three-way classification of the target ground truths. `objs`: the ground-truth objects handed to the library, in the
    order of d["gt"], when results are to be attributed by object identity / pose instead of by uuid."""
    lists = {
        "success": res.detection_success_results,
        "fail": res.detection_fail_results,
        "warning": res.detection_warning_results,
    }
    by_uuid = {g["uuid"]: i for i, g in enumerate(d["gt"])}
    seen = {}
    for name, lst in lists.items():
        for r in lst:
            u = r.ground_truth_object.uuid
            if objs is not None:
                hit = [i for i, o in enumerate(objs) if o is r.ground_truth_object]
                u = d["gt"][hit[0]]["uuid"] if hit else ("<not one of the objects given>", u)
            if u not in by_uuid:
                ctx.violate(f"{sig}:unknown-object-reported", f"a {name} result carries an object with uuid {u!r} that is not a ground truth of the frame")
                return
            seen.setdefault(u, []).append((name, r))
    for g in d["gt"]:
        u = g["uuid"]
        got = seen.get(u, [])
        if u not in targets:
            ctx.require(not got, f"{sig}:non-target-reported", lambda: f"ground truth {u} is not in target_uuids {d['cfg'].get('uuids')} but is reported in {[n for n, _ in got]}")
            continue
        names = [n for n, _ in got]
        if len(got) != 1:
            if sorted(names) == ["fail", "warning"] or sorted(names) == ["success", "warning"]:
                ctx.violate(f"{sig}:occluded-object-also-judged", f"ground truth {u} (visibility {g['vis']}) is reported in {names}")
            else:
                ctx.violate(f"{sig}:not-exactly-once", f"ground truth {u} (visibility {g['vis']}) is reported in {names} (expected exactly one of success / fail / warning)")
            continue
        name, r = got[0]
        col = box_cls[by_uuid[u]]
        lo, hi = col.count("in"), col.count("in") + col.count("unc")
        if hi > lo:
            ctx.boundary()
        inside = r.inside_pointcloud
        ok = _check_selection(ctx, _rows(inside), rows, col, f"{sig}:inside", f"inside_pointcloud of ground truth {u}")
        if not ok:
            continue
        num = r.inside_pointcloud_num
        ctx.require(num == len(inside), f"{sig}:count-mismatch", lambda: f"ground truth {u}: inside_pointcloud_num {num} vs {len(inside)} rows")
        if g["vis"] == "none":
            ctx.cls("gt_warning")
            ctx.require(name == "warning", f"{sig}:occluded-not-warning", lambda: f"ground truth {u} has visibility NONE but is reported as {name}")
            continue
        ctx.require(name != "warning", f"{sig}:visible-object-warning", lambda: f"ground truth {u} has visibility {g['vis']} but is reported as warning")
        if name == "warning":
            continue
        if lo >= thr:
            expect = "success"
        elif hi < thr:
            expect = "fail"
        else:
            ctx.cls("gt_threshold_undecided")
            continue
        ctx.cls("gt_" + expect)
        if lo == thr:
            ctx.cls("gt_count_equals_threshold")
        ctx.require(
            name == expect,
            f"{sig}:detected-iff-count-ge-threshold",
            lambda: f"ground truth {u}: {lo} points inside (reference), threshold {thr}: expected {expect}, reported {name} (inside_pointcloud_num {num})",
        )
        ctx.require(bool(r.is_detected) == (expect == "success"), f"{sig}:is-detected-flag", lambda: f"ground truth {u}: is_detected {r.is_detected} in list {name}")


def _check_non_detection(ctx, reported, expected, sig):
    """expected: per area (need rows, maybe rows, all rows); reported: list of arrays."""
    for a in reported:
        ctx.require(len(a) != 0, f"{sig}:empty-area-reported", "pointcloud_failed_non_detection contains an empty array (areas without points must be omitted)")
    must = [bool(sum(1 for c in cls if c == "in")) for cls, _ in expected]
    may = [bool(sum(1 for c in cls if c != "out")) for cls, _ in expected]
    if any(m2 and not m1 for m1, m2 in zip(must, may)):
        # an area whose presence depends on boundary rows: the per-area alignment is ambiguous
        ctx.boundary()
        ctx.require(sum(must) <= len(reported) <= sum(may), f"{sig}:area-count", lambda: f"{len(reported)} areas reported, between {sum(must)} and {sum(may)} expected")
        return
    present = [e for e, m in zip(expected, must) if m]
    if len(reported) != len(present):
        ctx.violate(f"{sig}:area-count", f"{len(reported)} non-detection arrays reported, {len(present)} areas contain points outside every box ({[sum(1 for c in cls if c == 'in') for cls, _ in expected]} rows per area)")
        return
    for k, (a, (cls, rows)) in enumerate(zip(reported, present)):
        if not _check_selection(ctx, _rows(a), rows, cls, sig, f"pointcloud_failed_non_detection[{k}]"):
            return


def _combine_non_detection(area_cols, box_cls, rows):
    """Class of each row for 'in the area and outside every box'."""
    out = []
    for acol in area_cols:
        cls = []
        for i in range(len(rows)):
            a = acol[i]
            bs = [col[i] for col in box_cls]
            if a == "out" or "in" in bs:
                cls.append("out")
            elif a == "in" and all(b == "out" for b in bs):
                cls.append("in")
            else:
                cls.append("unc")
        out.append((cls, rows))
    return out


@CHECK.given("frame", lambda tier: frame_cases(tier, manager=False), quick=150, thorough=4000)
def frame(ctx, d):
    import numpy as np
    from perception_eval.evaluation.sensing.sensing_frame_config import SensingFrameConfig
    from perception_eval.evaluation.sensing.sensing_frame_result import SensingFrameResult

    cfg = d["cfg"]
    rows3, polys = _frame_cloud(d)
    arr, rows = _make_cloud(rows3, d["cols"], "f8")
    box_cls, area_cls = _frame_reference(ctx, d, rows, polys)
    _classify_frame(ctx, d, box_cls, rows)
    # clouds "in the non-detection areas", as a caller (the manager) would pre-crop them: rows decided inside the prism
    nd_inputs, nd_rows, nd_cols = [], [], []
    for acol in area_cls:
        idx = [i for i, c in enumerate(acol) if c == "in"]
        nd_inputs.append(arr[idx] if idx else np.zeros((0, d["cols"])))
        nd_rows.append([rows[i] for i in idx])
        nd_cols.append(idx)
    mode = d.get("uuid_mode", "unique")
    ctx.cls("uuid_mode:" + mode)
    objs = D.objs3d(d["gt"] if mode == "unique" else [dict(g, uuid=None if mode == "none" else "shared") for g in d["gt"]])
    res = None
    with ctx.under_test("SensingFrameResult.evaluate_frame"):
        fcfg = SensingFrameConfig(target_uuids=None, box_scale_0m=cfg["s0"], box_scale_100m=cfg["s100"], min_points_threshold=cfg["thr"])
        res = SensingFrameResult(fcfg, D.T0, "0")
        res.evaluate_frame(objs, arr, nd_inputs)
    if res is None:
        return
    _check_detection(ctx, d, res, rows, box_cls, cfg["thr"], {g["uuid"] for g in d["gt"]}, "frame", objs=None if mode == "unique" else objs)
    expected = []
    for idx, sub in zip(nd_cols, nd_rows):
        cls = []
        for i in idx:
            bs = [col[i] for col in box_cls]
            cls.append("out" if "in" in bs else ("in" if all(b == "out" for b in bs) else "unc"))
        expected.append((cls, sub))
    _check_non_detection(ctx, res.pointcloud_failed_non_detection, expected, "frame:non-detection")
    if any("in" in cls for cls, _ in expected):
        ctx.cls("non_detection_failure")


@CHECK.given("manager", lambda tier: frame_cases(tier, manager=True), quick=120, thorough=3200)
def manager(ctx, d):
    from perception_eval.config import SensingEvaluationConfig
    from perception_eval.evaluation.sensing.sensing_frame_config import SensingFrameConfig
    from perception_eval.manager import SensingEvaluationManager

    cfg = d["cfg"]
    rows3, polys = _frame_cloud(d)
    arr, rows = _make_cloud(rows3, d["cols"], "f8")
    box_cls, area_cls = _frame_reference(ctx, d, rows, polys)
    _classify_frame(ctx, d, box_cls, rows)
    areas = [_prism_area(pd, poly) for pd, poly in zip(d["areas"], polys)]
    uuids = cfg.get("uuids")
    if uuids is not None:
        ctx.cls("target_uuids")
    thr = cfg["thr"]
    fgt = D.frame_gt(d["gt"])
    res = None
    with ctx.under_test("SensingEvaluationManager.add_frame_result"):
        with contextlib.redirect_stderr(io.StringIO()):  # the dataset loader draws a progress bar
            econf = SensingEvaluationConfig(
                dataset_paths=[SAMPLE_DATA],
                frame_id="base_link",
                result_root_directory=proc_tmp(),
                evaluation_config_dict={
                    "evaluation_task": "sensing",
                    "target_uuids": uuids,
                    "box_scale_0m": cfg["s0"],
                    "box_scale_100m": cfg["s100"],
                    "min_points_threshold": cfg["thr"],
                },
                load_raw_data=False,
            )
            mgr = SensingEvaluationManager(evaluation_config=econf)
        fcfg = None
        if cfg.get("explicit"):
            ctx.cls("explicit_frame_config")
            if cfg.get("fthr") is not None:
                thr = cfg["fthr"]
            fcfg = SensingFrameConfig(target_uuids=uuids, box_scale_0m=cfg["s0"], box_scale_100m=cfg["s100"], min_points_threshold=thr)
        res = mgr.add_frame_result(D.T0, fgt, arr, areas, fcfg) if fcfg is not None else mgr.add_frame_result(D.T0, fgt, arr, areas)
    if res is None:
        return
    targets = {g["uuid"] for g in d["gt"]} if uuids is None else {g["uuid"] for g in d["gt"]} & set(uuids)
    _check_detection(ctx, d, res, rows, box_cls, thr, targets, "manager")
    expected = _combine_non_detection(area_cls, box_cls, rows)
    _check_non_detection(ctx, res.pointcloud_failed_non_detection, expected, "manager:non-detection")
    if any("in" in cls for cls, _ in expected):
        ctx.cls("non_detection_failure")
    if any(acol[i] == "in" and any(col[i] == "in" for col in box_cls) for acol in area_cls for i in range(len(rows))):
        ctx.cls("area_row_removed_by_box")
