"""C13 — scene scores pool the frame results; frame evaluation is history-independent.

Hypothesis RuleBasedStateMachine over a real PerceptionEvaluationManager.  Rules append JSON ops to a log and
execute them through `apply_op`, the same interpreter `replay` uses without Hypothesis.
"""
from hypothesis import strategies as st
from hypothesis.stateful import RuleBasedStateMachine, initialize, invariant, rule

from vlib import desc as D
from vlib import matchlib as ML
from vlib import mgrlib as MG
from vlib import ref_ap as RA
from vlib import ref_clear as RC
from vlib import scorelib as SL
from vlib.harness import Check, PropertyViolation

CHECK = Check(
    "C13",
    rule=(
        "stateful: a real manager (detection or tracking; ego or map frame) with a pool of 2-4 generated ground-truth "
        "frames installed as its dataset; operation sequences of add_frame_result(frame index, estimate variant, "
        "critical-filter variant, pass/fail variant) incl. re-evaluation of earlier frames with other critical filters, "
        "get_scene_result queries (with a permuted-order second manager), and fresh replays of an earlier call on a "
        "brand-new manager. Non-trivial = sequence with >=3 add steps including a re-evaluation of an earlier frame "
        "index with a different critical filter and >=1 scene query; distinct by op-log hash."
    ),
    assumptions=[
        "pooled AP / CLEAR are recomputed with the reference models from manager.frame_results; per-result TP "
        "classification uses the library's pair scores (C06) and heading weights (C09)",
        "order independence of pooled AP is asserted only when all confidences in a label bucket are distinct",
    ],
    design_ref="§6 C13",
)

TOL = 1e-9


class State:
    def __init__(self, case):
        self.d = case
        self.frame = case["frame"]
        self.mgr = MG.make_manager(case)
        self.pool = MG.build_gt_frames(case)
        self.mgr.ground_truth_frames = self.pool
        self.pool_snap = [self._snap(f) for f in self.pool]
        self.calls = []  # (op, summary)
        self.n_scene = 0
        self.reeval_other_filter = False


    @staticmethod
    def _snap(f):
        import numpy as np

        return (
            f.unix_time,
            f.frame_name,
            [id(o) for o in f.objects],
            [D.snapshot3d(o) for o in f.objects],
            [(str(k), np.array(v.matrix).tolist()) for k, v in f.transforms.items()],
        )


def est_variant(f, ev):
    est = list(f["est"])
    if ev == 1:
        est = est[::-1]
    elif ev == 2 and est:
        est = est[1:]
    return est


def do_add(ctx, mgr, pool, d, op, frame):
    """One add_frame_result call as a caller would make it; returns (frame_result, est_objects, gt_frame)."""
    i = op["f"]
    f = d["frames"][i]
    t = D.T0 + i * 100_000
    ests_desc = est_variant(f, op["e"])
    ests = D.objs3d(ests_desc, frame, f["ego"], t)
    passed = list(ests)
    ids = [id(o) for o in passed]
    snaps = [D.snapshot3d(o) for o in passed]
    res = None
    with ctx.under_test("add_frame_result"):
        now = mgr.get_ground_truth_now_frame(t)
        ctx.require(now is pool[i], "lookup-wrong-frame", f"lookup of frame {i} returned another frame")
        res = mgr.add_frame_result(
            unix_time=t,
            ground_truth_now_frame=now,
            estimated_objects=passed,
            critical_object_filter_config=MG.crit_config(mgr, d, d["frames"][op["c"]]),
            frame_pass_fail_config=MG.pf_config(mgr, d, d["frames"][op["p"]]),
        )
    if res is None:
        return None
    ctx.require(
        [id(o) for o in passed] == ids and [D.snapshot3d(o) for o in passed] == snaps,
        "estimate-list-mutated",
        "add_frame_result changed the caller's estimate list or objects",
    )
    return res, ests, pool[i]


def check_scene(ctx, st_):
    from checks import c05

    d, mgr = st_.d, st_.mgr
    targets, pol = d["targets"], d["policy"]
    scene = None
    with ctx.under_test("get_scene_result"):
        scene = mgr.get_scene_result()
    if scene is None:
        return
    frs = mgr.frame_results
    exp_gt = sum(1 for fr in frs for g in fr.frame_ground_truth.objects if g.semantic_label.label.value in targets)
    ctx.require(scene.num_ground_truth == exp_gt, "scene-num-gt", lambda: f"scene num_ground_truth {scene.num_ground_truth} but the evaluated frames hold {exp_gt} critical target-labelled GTs")
    distinct_conf = SL.check_maps(ctx, scene.maps, frs, targets, pol, "scene")
    for ts in scene.tracking_scores:
        mode = ts.matching_mode.name
        for L, clear in zip(targets, ts.clears):
            thr = clear.matching_threshold_list[0]
            hist = [[]] + [c05._ref_bucket(fr.object_results, L, targets, pol, mode, thr) for fr in frs]
            c05._check_against_ref(ctx, clear, RC.accumulate(hist), clear.num_ground_truth, what=f"scene {mode} {L}: ")
    # one-frame scene reproduces that frame's detection score
    if len(frs) == 1:
        a, b = MG.summarize_score(scene), MG.summarize_score(frs[0].metrics_score)
        ctx.require(len(a["maps"]) == len(b["maps"]), "one-frame-scene", "different number of Map scores")
        for ma, mb in zip(a["maps"], b["maps"]):
            ok = all(MG.feq(x, y, TOL) for x, y in zip(ma["ap"] + ma["aph"] + [ma["map"], ma["maph"]], mb["ap"] + mb["aph"] + [mb["map"], mb["maph"]]))
            ctx.require(ok, "one-frame-scene", lambda: f"scene {ma} vs frame {mb}")
    # pooled AP does not depend on the order in which frames were added (distinct confidences)
    if distinct_conf and 2 <= len(st_.calls) <= 6:
        m2 = MG.make_manager(d)
        pool2 = MG.build_gt_frames(d)
        m2.ground_truth_frames = pool2
        ok = True
        for op, _ in reversed(st_.calls):
            if do_add(ctx, m2, pool2, d, op, st_.frame) is None:
                ok = False
                break
        if ok:
            s2 = None
            with ctx.under_test("get_scene_result(permuted)"):
                s2 = m2.get_scene_result()
            if s2 is not None:
                ctx.cls("permuted_order_compared")
                a, b = MG.summarize_score(scene), MG.summarize_score(s2)
                ctx.require(a["num_gt"] == b["num_gt"], "scene-order-dependent-num-gt", lambda: f"{a['num_gt']} vs {b['num_gt']}")
                for ma, mb in zip(a["maps"], b["maps"]):
                    ok2 = all(MG.feq(x, y, 1e-9) for x, y in zip(ma["ap"] + [ma["map"]], mb["ap"] + [mb["map"]]))
                    ctx.require(ok2, "scene-ap-order-dependent", lambda: f"{ma['mode']} {ma['thr']}: AP {ma['ap']} vs {mb['ap']} after adding the same frames in reverse order")


def check_pool(ctx, st_):
    for i, (f, snap) in enumerate(zip(st_.pool, st_.pool_snap)):
        now = State._snap(f)
        ctx.require(len(now[2]) == len(snap[2]), "dataset-frame-objects-changed", lambda: f"loaded ground-truth frame {i} had {len(snap[2])} objects, now {len(now[2])}")
        ctx.require(now == snap, "dataset-frame-mutated", lambda: f"loaded ground-truth frame {i} was modified by an evaluation")
    ctx.require(st_.mgr.ground_truth_frames is st_.pool or list(st_.mgr.ground_truth_frames) == list(st_.pool), "dataset-list-changed", "manager.ground_truth_frames changed")


def apply_op(ctx, st_, op):
    d = st_.d
    if op["op"] == "add":
        out = do_add(ctx, st_.mgr, st_.pool, d, op, st_.frame)
        if out is None:
            return
        res, ests, gtf = out
        summ = MG.summarize_frame(res, ests, gtf.objects)
        for prev_op, _ in st_.calls:
            if prev_op["f"] == op["f"] and prev_op["c"] != op["c"]:
                st_.reeval_other_filter = True
        st_.calls.append((op, summ))
        ctx.cls("add")
    elif op["op"] == "scene":
        if st_.calls:
            check_scene(ctx, st_)
            st_.n_scene += 1
            ctx.cls("scene_query")
    elif op["op"] == "fresh":
        if not st_.calls:
            return
        k = op["k"] % len(st_.calls)
        m2 = MG.make_manager(d)
        pool2 = MG.build_gt_frames(d)
        m2.ground_truth_frames = pool2
        if d["task"] == "tracking" and k > 0:
            if do_add(ctx, m2, pool2, d, st_.calls[k - 1][0], st_.frame) is None:
                return
        out = do_add(ctx, m2, pool2, d, st_.calls[k][0], st_.frame)
        if out is None:
            return
        res, ests, gtf = out
        fresh = MG.summarize_frame(res, ests, gtf.objects)
        ctx.cls("fresh_replay")
        MG.compare_summaries(ctx, st_.calls[k][1], fresh, "history-dependent", tol=1e-12)
    check_pool(ctx, st_)
    ctx.mark_nontrivial(len(st_.calls) >= 3 and st_.reeval_other_filter and st_.n_scene >= 1)


def case_strategy(tier):
    from checks import c05

    det = MG.manager_cases(tier, tasks=("detection",), max_frames=4, frames_fixed=None).filter(lambda d: len(d["frames"]) >= 2)
    # tracking: consistent multi-frame tracks (persistent GT instances with fixed category, estimate ids with events)
    return st.one_of(det, c05.tracking_histories(tier))


def factory(ctx, tier):
    class Machine(RuleBasedStateMachine):
        def __init__(self):
            super().__init__()
            self.log = []
            self.state = None

        def _do(self, op):
            from vlib.harness import jnorm

            self.log.append(op)
            ctx._cur = jnorm(self.log)
            try:
                if op["op"] == "init":
                    self.state = State(jnorm(op["case"]))
                else:
                    apply_op(ctx, self.state, op)
            except PropertyViolation as e:
                ctx.failing = (jnorm(self.log), e)
                raise

        @initialize(case=case_strategy(tier))
        def init(self, case):
            ctx.begin([])
            self._do({"op": "init", "case": case})

        @rule(f=st.integers(0, 3), e=st.integers(0, 2), c=st.integers(0, 3), p=st.integers(0, 3))
        def add(self, f, e, c, p):
            n = len(self.state.d["frames"])
            self._do({"op": "add", "f": f % n, "e": e, "c": c % n, "p": p % n})

        @rule()
        def scene(self):
            self._do({"op": "scene"})

        @rule(k=st.integers(0, 50))
        def fresh(self, k):
            self._do({"op": "fresh", "k": k})

    return Machine


def replay(ctx, log):
    st_ = None
    for op in log:
        if op["op"] == "init":
            st_ = State(op["case"])
        else:
            apply_op(ctx, st_, op)


CHECK.machine("manager_histories", factory, replay, quick=(160, 14), thorough=(4800, 25))
