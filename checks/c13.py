"""C13 — scene scores pool the frame results; frame evaluation is history-independent.

Hypothesis RuleBasedStateMachine over a real PerceptionEvaluationManager.  Rules append JSON ops to a log and
execute them through `apply_op`, the same interpreter `replay` uses without Hypothesis.
"""
from hypothesis import strategies as st
from hypothesis.stateful import RuleBasedStateMachine, initialize, invariant, rule

from vlib import desc as D
from vlib import matchlib as ML
from vlib import mgrlib as MG
from vlib import ref_ap as RA
from vlib import ref_clear as RC
from vlib import scorelib as SL
from vlib.harness import Check, PropertyViolation

CHECK = Check(
    "C13",
    rule=(
        "stateful: a real manager (detection or tracking; ego or map frame) with a pool of 2-4 generated ground-truth "
        "frames installed as its dataset; operation sequences of add_frame_result(frame index, estimate variant, "
        "critical-filter variant, pass/fail variant) incl. re-evaluation of earlier frames with other critical filters, "
        "interpolating ground-truth lookups between two loaded frames, get_scene_result queries (with a permuted-order second manager), and fresh replays of an earlier call on a "
        "brand-new manager. Non-trivial = sequence with >=3 add steps including a re-evaluation of an earlier frame "
        "index with a different critical filter and >=1 scene query; distinct by op-log hash."
    ),
    assumptions=[
        "pooled AP / CLEAR are recomputed with the reference models from manager.frame_results; per-result TP "
        "classification uses the library's pair scores (C06) and heading weights (C09)",
        "order independence of pooled AP is asserted only when all confidences in a label bucket are distinct",
    ],
    design_ref="§6 C13",
)

TOL = 1e-9


class State:
    def __init__(self, case):
        import copy

        case = copy.deepcopy(case)
        for f in case["frames"]:
            for g in f["gt"]:
                g.setdefault("vel", [0.0, 0.0, 0.0])  # (P6) loaded annotations carry velocities; interpolation needs them
        self.d = case
        self.frame = case["frame"]
        self.mgr = MG.make_manager(case)
        self.pool = MG.build_gt_frames(case)
        self.mgr.ground_truth_frames = self.pool
        self.pool_snap = [self._snap(f) for f in self.pool]
        # the frames' critical filters / pass-fail configurations are prepared up front and re-used by the add steps
        self.crits = [MG.crit_config(self.mgr, case, f) for f in case["frames"]]
        self.pfs = [MG.pf_config(self.mgr, case, f) for f in case["frames"]]
        self.calls = []  # (op, summary)
        self.n_scene = 0
        self.reeval_other_filter = False


    @staticmethod
    def _snap(f):
        import numpy as np

        return (
            f.unix_time,
            f.frame_name,
            [id(o) for o in f.objects],
            [D.snapshot3d(o) for o in f.objects],
            [(str(k), np.array(v.matrix).tolist()) for k, v in f.transforms.items()],
        )


def est_variant(f, ev):
    est = list(f["est"])
    if ev == 1:
        est = est[::-1]
    elif ev == 2 and est:
        est = est[1:]
    return est


def do_add(ctx, mgr, pool, d, op, frame, prepared=None):
    """One add_frame_result call as a caller would make it; returns (frame_result, est_objects, gt_frame).
    `prepared` = (critical configs, pass/fail configs) built up front for the manager `mgr` (used unless the op asks for
    a permuted label order, which builds its own configuration)."""
    i = op["f"]
    f = d["frames"][i]
    t = D.T0 + i * 100_000
    ests_desc = est_variant(f, op["e"])
    ests = D.objs3d(ests_desc, frame, f["ego"], t)
    passed = list(ests)
    ids = [id(o) for o in passed]
    snaps = [D.snapshot3d(o) for o in passed]
    res = None
    cf = d["frames"][op["c"]]
    if op.get("perm"):
        # the same critical filter written with its labels (and per-label lists) in another order
        import itertools

        n = len(d["targets"])
        perms = list(itertools.permutations(range(n)))
        cf = dict(cf, crit=dict(cf["crit"], perm=list(perms[op["perm"] % len(perms)])))
    with ctx.under_test("add_frame_result"):
        now = mgr.get_ground_truth_now_frame(t)
        ctx.require(now is pool[i], "lookup-wrong-frame", f"lookup of frame {i} returned another frame")
        res = mgr.add_frame_result(
            unix_time=t,
            ground_truth_now_frame=now,
            estimated_objects=passed,
            critical_object_filter_config=prepared[0][op["c"]] if prepared is not None and not op.get("perm") else MG.crit_config(mgr, d, cf),
            frame_pass_fail_config=prepared[1][op["p"]] if prepared is not None else MG.pf_config(mgr, d, d["frames"][op["p"]]),
        )
    if res is None:
        return None
    ctx.require(
        [id(o) for o in passed] == ids and [D.snapshot3d(o) for o in passed] == snaps,
        "estimate-list-mutated",
        "add_frame_result changed the caller's estimate list or objects",
    )
    return res, ests, pool[i]


def check_scene(ctx, st_):
    from checks import c05

    d, mgr = st_.d, st_.mgr
    targets, pol = d["targets"], d["policy"]
    scene = None
    with ctx.under_test("get_scene_result"):
        scene = mgr.get_scene_result()
    if scene is None:
        return
    frs = mgr.frame_results
    exp_gt = sum(1 for fr in frs for g in fr.frame_ground_truth.objects if g.semantic_label.label.value in targets)
    ctx.require(scene.num_ground_truth == exp_gt, "scene-num-gt", lambda: f"scene num_ground_truth {scene.num_ground_truth} but the evaluated frames hold {exp_gt} critical target-labelled GTs")
    distinct_conf = SL.check_maps(ctx, scene.maps, frs, targets, pol, "scene", d)
    for ts, row in zip(scene.tracking_scores, MG.configured_rows(ctx, d, scene.tracking_scores, "scene-tracking", expect=d["task"] == "tracking")):
        mode = ts.matching_mode.name
        for li, (L, clear) in enumerate(zip(targets, ts.clears)):
            thr = row[li] if row is not None else clear.matching_threshold_list[0]
            hist = [[]] + [c05._ref_bucket(fr.object_results, L, targets, pol, mode, thr) for fr in frs]
            c05._check_against_ref(ctx, clear, RC.accumulate(hist), clear.num_ground_truth, what=f"scene {mode} {L}: ")
    # one-frame scene reproduces that frame's detection score
    if len(frs) == 1:
        one_frame_scene(ctx, scene, frs[0])
    # pooled AP does not depend on the order in which frames were added (distinct confidences)
    if distinct_conf and 2 <= len(st_.calls) <= 6:
        m2 = MG.make_manager(d)
        pool2 = MG.build_gt_frames(d)
        m2.ground_truth_frames = pool2
        ok = True
        for op, _ in reversed(st_.calls):
            if do_add(ctx, m2, pool2, d, op, st_.frame) is None:
                ok = False
                break
        if ok:
            s2 = None
            with ctx.under_test("get_scene_result(permuted)"):
                s2 = m2.get_scene_result()
            if s2 is not None:
                ctx.cls("permuted_order_compared")
                a, b = MG.summarize_score(scene), MG.summarize_score(s2)
                ctx.require(a["num_gt"] == b["num_gt"], "scene-order-dependent-num-gt", lambda: f"{a['num_gt']} vs {b['num_gt']}")
                for ma, mb in zip(a["maps"], b["maps"]):
                    ok2 = all(MG.feq(x, y, 1e-9) for x, y in zip(ma["ap"] + [ma["map"]], mb["ap"] + [mb["map"]]))
                    ctx.require(ok2, "scene-ap-order-dependent", lambda: f"{ma['mode']} {ma['thr']}: AP {ma['ap']} vs {mb['ap']} after adding the same frames in reverse order")


def one_frame_scene(ctx, scene, fr):
    a, b = MG.summarize_score(scene), MG.summarize_score(fr.metrics_score)
    ctx.require(len(a["maps"]) == len(b["maps"]), "one-frame-scene", "different number of Map scores")
    for ma, mb in zip(a["maps"], b["maps"]):
        ok = all(MG.feq(x, y, TOL) for x, y in zip(ma["ap"] + ma["aph"] + [ma["map"], ma["maph"]], mb["ap"] + mb["aph"] + [mb["map"], mb["maph"]]))
        ctx.require(ok, "one-frame-scene", lambda: f"scene of one frame {ma} vs that frame's own score {mb}")


def check_pool(ctx, st_):
    for i, (f, snap) in enumerate(zip(st_.pool, st_.pool_snap)):
        now = State._snap(f)
        ctx.require(len(now[2]) == len(snap[2]), "dataset-frame-objects-changed", lambda: f"loaded ground-truth frame {i} had {len(snap[2])} objects, now {len(now[2])}")
        ctx.require(now == snap, "dataset-frame-mutated", lambda: f"loaded ground-truth frame {i} was modified by an evaluation")
    ctx.require(st_.mgr.ground_truth_frames is st_.pool or list(st_.mgr.ground_truth_frames) == list(st_.pool), "dataset-list-changed", "manager.ground_truth_frames changed")


def apply_op(ctx, st_, op):
    d = st_.d
    if op["op"] == "add":
        out = do_add(ctx, st_.mgr, st_.pool, d, op, st_.frame, prepared=(st_.crits, st_.pfs))
        if out is None:
            return
        res, ests, gtf = out
        summ = MG.summarize_frame(res, ests, gtf.objects)
        for prev_op, _ in st_.calls:
            if prev_op["f"] == op["f"] and prev_op["c"] != op["c"]:
                st_.reeval_other_filter = True
        st_.calls.append((op, summ))
        ctx.cls("add")
        if op.get("perm"):
            ctx.cls("add_with_permuted_critical_labels")
        if len(st_.mgr.frame_results) == 1:
            sc1 = None
            with ctx.under_test("get_scene_result(one frame)"):
                sc1 = st_.mgr.get_scene_result()
            if sc1 is not None:
                ctx.cls("one_frame_scene_compared")
                one_frame_scene(ctx, sc1, st_.mgr.frame_results[0])
    elif op["op"] == "scene":
        if st_.calls:
            check_scene(ctx, st_)
            st_.n_scene += 1
            ctx.cls("scene_query")
    elif op["op"] == "interp":
        # an interpolating lookup between two loaded frames (what the tracking pipeline does for every off-sample
        # timestamp), interleaved with evaluations: it must leave the loaded dataset alone (check_pool below); whether the
        # interpolation itself is right is C17's business, so an exception here is only classified
        i = op["f"] % max(1, len(st_.pool) - 1)
        t = D.T0 + i * 100_000 + op["a"] * 10_000
        try:
            now = st_.mgr.get_ground_truth_now_frame(t, 200_000, interpolate_ground_truth=True)
            ctx.cls("interp_lookup" if now is not None and all(now is not f for f in st_.pool) else "interp_lookup_loaded_frame")
            st_.n_interp = getattr(st_, "n_interp", 0) + 1
        except PropertyViolation:
            raise
        except Exception as e:  # noqa: BLE001
            ctx.cls(f"interp_raised_{type(e).__name__}")
    elif op["op"] == "fresh":
        if not st_.calls:
            return
        k = op["k"] % len(st_.calls)
        m2 = MG.make_manager(d)
        pool2 = MG.build_gt_frames(d)
        m2.ground_truth_frames = pool2
        if d["task"] == "tracking" and k > 0:
            if do_add(ctx, m2, pool2, d, st_.calls[k - 1][0], st_.frame) is None:
                return
        out = do_add(ctx, m2, pool2, d, st_.calls[k][0], st_.frame)
        if out is None:
            return
        res, ests, gtf = out
        fresh = MG.summarize_frame(res, ests, gtf.objects)
        ctx.cls("fresh_replay")
        MG.compare_summaries(ctx, st_.calls[k][1], fresh, "history-dependent", tol=1e-12)
        if len(m2.frame_results) == 1:
            # the fresh manager now holds a one-frame scene of exactly that call
            sc2 = None
            with ctx.under_test("get_scene_result(one frame)"):
                sc2 = m2.get_scene_result()
            if sc2 is not None:
                ctx.cls("one_frame_scene_compared")
                one_frame_scene(ctx, sc2, m2.frame_results[0])
    check_pool(ctx, st_)
    ctx.mark_nontrivial(len(st_.calls) >= 3 and st_.reeval_other_filter and st_.n_scene >= 1)


def case_strategy(tier):
    from checks import c05

    det = MG.manager_cases(tier, tasks=("detection",), max_frames=4, frames_fixed=None).filter(lambda d: len(d["frames"]) >= 2)
    # tracking: consistent multi-frame tracks (persistent GT instances with fixed category, estimate ids with events)
    def names(t):
        d, restart = t
        if restart:
            d["names_restart"] = True  # frame names repeat (as with several dataset paths): a name does not identify a frame
        return d

    return st.tuples(st.one_of(det, c05.tracking_histories(tier)), st.booleans()).map(names)


def factory(ctx, tier):
    class Machine(RuleBasedStateMachine):
        def __init__(self):
            super().__init__()
            self.log = []
            self.state = None

        def _do(self, op):
            from vlib.harness import jnorm

            self.log.append(op)
            ctx._cur = jnorm(self.log)
            try:
                if op["op"] == "init":
                    self.state = State(jnorm(op["case"]))
                else:
                    apply_op(ctx, self.state, op)
            except PropertyViolation as e:
                ctx.failing = (jnorm(self.log), e)
                raise

        @initialize(case=case_strategy(tier))
        def init(self, case):
            ctx.begin([])
            self._do({"op": "init", "case": case})

        @rule(f=st.integers(0, 3), e=st.integers(0, 2), c=st.integers(0, 3), p=st.integers(0, 3), perm=st.sampled_from([0, 0, 1, 2, 3, 5]))
        def add(self, f, e, c, p, perm):
            n = len(self.state.d["frames"])
            op = {"op": "add", "f": f % n, "e": e, "c": c % n, "p": p % n}
            if perm:
                op["perm"] = perm
            self._do(op)

        @rule()
        def scene(self):
            self._do({"op": "scene"})

        @rule(k=st.integers(0, 50))
        def fresh(self, k):
            self._do({"op": "fresh", "k": k})

        @rule(f=st.integers(0, 3), a=st.integers(1, 9))
        def interp(self, f, a):
            self._do({"op": "interp", "f": f, "a": a})

    return Machine


def replay(ctx, log):
    st_ = None
    for op in log:
        if op["op"] == "init":
            st_ = State(op["case"])
        else:
            apply_op(ctx, st_, op)


CHECK.machine("manager_histories", factory, replay, quick=(180, 18), thorough=(4800, 28))


# ------------------------------------------------------------------------------------------------
# the tracking pipeline's usual path: ground truth obtained by INTERPOLATION (deep copies of loaded, already evaluated
# objects with reassigned state, frame id "map") must evaluate exactly like an equal frame built from scratch
# ------------------------------------------------------------------------------------------------


def _interp_cases(tier):
    from checks import c05

    return st.tuples(c05.tracking_histories(tier), st.integers(1, 9)).map(lambda t: {"case": t[0], "alpha10": t[1]})


@CHECK.given("interpolated_frame_evaluation", _interp_cases, quick=50, thorough=2500)
def interpolated_frame_evaluation(ctx, dd):
    import math

    from perception_eval.common.dataset import FrameGroundTruth
    from perception_eval.common.object import DynamicObject
    from perception_eval.common.schema import FrameID
    from perception_eval.common.shape import Shape, ShapeType
    from perception_eval.common.transform import HomogeneousMatrix

    d = dict(dd["case"])
    d["frames"] = d["frames"][:2]
    f0, f1 = d["frames"]
    frame = d["frame"]
    t0, t1 = D.T0, D.T0 + 100_000
    t = t0 + dd["alpha10"] * 10_000

    def build_pool():
        # (P6) loaded objects that exist in both neighbouring samples carry a velocity
        g0 = [dict(g, vel=[0.0, 0.0, 0.0]) for g in f0["gt"]]
        g1 = [dict(g, vel=[0.0, 0.0, 0.0]) for g in f1["gt"]]
        return [D.frame_gt(g0, frame, f0["ego"], t0, "0"), D.frame_gt(g1, frame, f1["ego"], t1, "1")]

    def add(mgr, now, ests, tt, f):
        res = None
        with ctx.under_test("add_frame_result"):
            res = mgr.add_frame_result(
                unix_time=tt,
                ground_truth_now_frame=now,
                estimated_objects=list(ests),
                critical_object_filter_config=MG.crit_config(mgr, d, f),
                frame_pass_fail_config=MG.pf_config(mgr, d, f),
            )
        return res

    # manager 1: loaded frames, frame 0 evaluated first, then the interpolated frame
    m1 = MG.make_manager(d)
    pool = build_pool()
    m1.ground_truth_frames = pool
    e0 = D.objs3d(f0["est"], frame, f0["ego"], t0)
    if add(m1, pool[0], e0, t0, f0) is None:
        return
    now = None

    def snap_pool():
        return [
            (f.unix_time, f.frame_name, [D.snapshot3d(o) for o in f.objects], sorted((str(k), v.matrix.tolist()) for k, v in f.transforms.items()))
            for f in pool
        ]

    before = snap_pool()
    with ctx.under_test("get_ground_truth_now_frame(interpolate)"):
        now = m1.get_ground_truth_now_frame(t, 200_000, interpolate_ground_truth=True)
    # the statement: evaluating / looking up a frame does not modify the loaded dataset
    after = snap_pool()
    ctx.require(
        before == after,
        "interpolation-modified-loaded-dataset",
        lambda: "get_ground_truth_now_frame(interpolate_ground_truth=True) changed the loaded frames: "
        + str(next(((x, y) for fa, fb in zip(before, after) for x, y in zip(fa[2], fb[2]) if x != y), (before, after)))[:600],
    )
    if now is None or now is pool[0] or now is pool[1]:
        ctx.violate("interpolated:not-interpolated", f"lookup strictly between two frames within tolerance returned {now!r}")
        return
    # estimates next to the interpolated ground truths, in the frame the interpolated objects are expressed in
    ests_desc = []
    for k, e in enumerate(f1["est"]):
        j = min(range(len(f1["gt"])), key=lambda i: math.dist(e["p"], f1["gt"][i]["p"])) if f1["gt"] else None
        off = [e["p"][i] - f1["gt"][j]["p"][i] for i in range(3)] if j is not None else [0.0, 0.0, 0.0]
        ests_desc.append((j, off, e))

    def make_ests(objs):
        out = []
        for j, off, e in ests_desc:
            if j is None or j >= len(objs):
                continue
            g = objs[j]
            fid = g.frame_id if isinstance(g.frame_id, FrameID) else FrameID.from_value(str(g.frame_id))
            out.append(
                DynamicObject(
                    unix_time=t,
                    frame_id=fid,
                    position=tuple(float(g.state.position[i]) + off[i] for i in range(3)),
                    orientation=g.state.orientation,
                    shape=Shape(ShapeType.BOUNDING_BOX, tuple(e["size"])),
                    velocity=None,
                    semantic_score=float(e["score"]),
                    semantic_label=D.label(e["label"]),
                    uuid=e["uuid"],
                )
            )
        return out

    by_uuid = sorted(now.objects, key=lambda o: o.uuid)
    r1 = add(m1, now, make_ests(by_uuid), t, f1)
    if r1 is None:
        return
    # manager 2: everything built from scratch, the 'interpolated' frame from the VALUES of the interpolated objects
    m2 = MG.make_manager(d)
    pool2 = build_pool()
    m2.ground_truth_frames = pool2
    if add(m2, pool2[0], D.objs3d(f0["est"], frame, f0["ego"], t0), t0, f0) is None:
        return
    fresh_objs = []
    for o in now.objects:
        fid = o.frame_id if isinstance(o.frame_id, FrameID) else FrameID.from_value(str(o.frame_id))
        fresh_objs.append(
            DynamicObject(
                unix_time=o.unix_time,
                frame_id=fid,
                position=tuple(float(c) for c in o.state.position),
                orientation=o.state.orientation,
                shape=Shape(ShapeType.BOUNDING_BOX, tuple(o.state.size)),
                velocity=o.state.velocity,
                semantic_score=o.semantic_score,
                semantic_label=D.label(o.semantic_label.label.value, attrs=o.semantic_label.attributes, orig=o.semantic_label.name),
                pointcloud_num=o.pointcloud_num,
                uuid=o.uuid,
            )
        )
    fresh_tf = [HomogeneousMatrix.from_matrix(v.matrix.copy(), src=v.src, dst=v.dst) for _, v in now.transforms.items()]
    fresh = FrameGroundTruth(t, now.frame_name, fresh_objs, transforms=fresh_tf)
    fresh_sorted = sorted(fresh.objects, key=lambda o: o.uuid)
    r2 = add(m2, fresh, make_ests(fresh_sorted), t, f1)
    if r2 is None:
        return
    ests1, ests2 = make_ests(by_uuid), make_ests(fresh_sorted)

    def summ(res, gts):
        # index estimates by uuid and ground truths by uuid (objects differ in identity between the two managers)
        pf = res.pass_fail_result
        return {
            "pairs": sorted((r.estimated_object.uuid, None if r.ground_truth_object is None else r.ground_truth_object.uuid, None if r.plane_distance is None or r.ground_truth_object is None else round(r.plane_distance.value, 6), None if r.ground_truth_object is None else round(r.iou_2d.value, 6)) for r in res.object_results),
            "crit": sorted(g.uuid for g in res.frame_ground_truth.objects),
            "tp": sorted(r.estimated_object.uuid for r in pf.tp_object_results),
            "fp": sorted(r.estimated_object.uuid for r in pf.fp_object_results),
            "fn": sorted(g.uuid for g in pf.fn_objects),
            "tn": sorted(g.uuid for g in pf.tn_objects),
        }

    s1, s2 = summ(r1, now.objects), summ(r2, fresh.objects)
    ctx.mark_nontrivial(bool(s2["tp"]) and len(now.objects) >= 2)
    ctx.cls("frame_" + frame)
    for key in ("crit", "pairs", "tp", "fp", "fn", "tn"):
        ctx.require(s1[key] == s2[key], f"interpolated-frame-differs:{key}", lambda: f"evaluating the interpolated frame gives {key} = {s1[key]}, an equal frame built from scratch gives {s2[key]}")
    a, b = MG.summarize_score(r1.metrics_score), MG.summarize_score(r2.metrics_score)
    MG.compare_scores(ctx, a, b, "interpolated-frame-differs", tol=1e-9)


# ------------------------------------------------------------------------------------------------
# the classification pipeline (ROI-less 2D objects paired by uuid / label): the same history clauses through a real
# classification2d manager — re-evaluating a frame after other frames, a fresh manager, and scene score = pooled frames
# ------------------------------------------------------------------------------------------------


def _cls_cases(tier):
    from checks import c11

    return c11._case(3).filter(lambda d: "animal" not in d["targets"] and len(d["frames"]) >= 2)


def _cls_manager(d):
    import perception_eval.manager._evaluation_manager_base as B
    from perception_eval.config import PerceptionEvaluationConfig
    from perception_eval.manager import PerceptionEvaluationManager
    from vlib.harness import proc_tmp

    cfg = {
        "evaluation_task": "classification2d",
        "target_labels": list(d["targets"]),
        "label_prefix": "traffic_light" if d["fam"] == "tl" else "autoware",
        "merge_similar_labels": False,
        "allow_matching_unknown": False,
        "uuid_matching_first": bool(d["uf"]),
    }
    cams = sorted({t[0] for f in d["frames"] for t in f["est"] + f["gt"]}) or ["cam_front"]
    c = PerceptionEvaluationConfig(dataset_paths=[MG.SAMPLE], frame_id=cams, result_root_directory=proc_tmp(), evaluation_config_dict=cfg)
    orig = B.load_all_datasets
    B.load_all_datasets = lambda **kw: []
    try:
        return PerceptionEvaluationManager(c)
    finally:
        B.load_all_datasets = orig


@CHECK.given("classification_histories", _cls_cases, quick=120, thorough=6000)
def classification_histories(ctx, d):
    from perception_eval.common.dataset import FrameGroundTruth
    from perception_eval.evaluation.result.perception_frame_config import CriticalObjectFilterConfig, PerceptionPassFailConfig

    fam = "tl" if d["fam"] == "tl" else "autoware"
    frames = d["frames"]
    order = list(range(len(frames))) + [0]  # every frame once, then the first frame again

    def objs(triples, t, score):
        return [D.obj2d({"cam": c, "roi": None, "label": lab, "fam": fam, "uuid": u, "score": score}, t) for (c, u, lab) in triples]

    def run(mgr, idxs):
        out = []
        for k, i in enumerate(idxs):
            t = D.T0 + i * 100_000
            f = frames[i]
            ests = objs(f["est"], t, 0.9)
            passed = list(ests)
            res = None
            with ctx.under_test("add_frame_result(classification2d)"):
                gtf = FrameGroundTruth(t, str(i), objs(f["gt"], t, 1.0))
                res = mgr.add_frame_result(
                    unix_time=t,
                    ground_truth_now_frame=gtf,
                    estimated_objects=passed,
                    critical_object_filter_config=CriticalObjectFilterConfig(evaluator_config=mgr.evaluator_config, target_labels=list(d["targets"])),
                    frame_pass_fail_config=PerceptionPassFailConfig(evaluator_config=mgr.evaluator_config, target_labels=list(d["targets"])),
                )
            if res is None:
                return None
            ctx.require(len(passed) == len(ests) and all(a is b for a, b in zip(passed, ests)), "estimate-list-mutated", "add_frame_result changed the caller's estimate list")
            pairs = sorted((str(r.estimated_object.frame_id), r.estimated_object.uuid, None if r.ground_truth_object is None else r.ground_truth_object.uuid) for r in res.object_results)
            sc = res.metrics_score.classification_scores
            summ = None if not sc else tuple(sc[0]._summarize())
            out.append({"i": i, "pairs": pairs, "n_gt": len(res.frame_ground_truth.objects), "score": summ, "res": res})
        return out

    m1 = _cls_manager(d)
    h = run(m1, order)
    if h is None:
        return
    first, again = h[0], h[-1]

    def same_score(a, b):
        if a is None or b is None:
            return a is b
        return all((x == y) or (isinstance(x, float) and isinstance(y, float) and (x != x and y != y or abs(x - y) <= 1e-12)) for x, y in zip(a, b))

    ctx.cls("fam_" + fam)
    if any(p[2] is None for e in h for p in e["pairs"]):
        ctx.cls("has_result_without_gt")
    ctx.mark_nontrivial(len(frames) >= 2 and sum(1 for e in h for p in e["pairs"] if p[2] is not None) >= 2)
    ctx.require(first["pairs"] == again["pairs"] and first["n_gt"] == again["n_gt"], "history-dependent:pairs", lambda: f"frame 0 evaluated first gives results {first['pairs']}; evaluated again after {len(frames) - 1} other frame(s) on the same manager {again['pairs']}")
    ctx.require(same_score(first["score"], again["score"]), "history-dependent:classification-score", lambda: f"frame 0: {first['score']} first, {again['score']} when evaluated again later")
    # a brand-new manager evaluating only the last frame of the history
    m2 = _cls_manager(d)
    last = order[-2]
    h2 = run(m2, [last])
    if h2 is not None:
        ref = h[len(order) - 2]
        ctx.require(ref["pairs"] == h2[0]["pairs"], "history-dependent:fresh-manager", lambda: f"frame {last} after {len(order) - 2} earlier evaluation(s): {ref['pairs']}; on a fresh manager: {h2[0]['pairs']}")
    # scene score pools the frame results
    scene = None
    with ctx.under_test("get_scene_result(classification2d)"):
        scene = m1.get_scene_result()
    if scene is not None and scene.classification_scores:
        accs = scene.classification_scores[0].accuracies
        n_res = sum(a.objects_results_num for a in accs)
        n_gt = sum(a.num_ground_truth for a in accs)
        exp_res = sum(sum(1 for r in e["res"].object_results if r.estimated_object.semantic_label.label.value in d["targets"] or (r.ground_truth_object is not None and r.ground_truth_object.semantic_label.label.value in d["targets"])) for e in h)
        exp_gt = sum(sum(1 for g in e["res"].frame_ground_truth.objects if g.semantic_label.label.value in d["targets"]) for e in h)
        ctx.require(n_gt == exp_gt, "scene-num-gt", lambda: f"classification scene counts {n_gt} ground truths, the evaluated frames hold {exp_gt}")
        ctx.require(n_res == exp_res, "scene-num-results", lambda: f"classification scene pools {n_res} results, the evaluated frames hold {exp_res}")
