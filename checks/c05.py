"""C05 — CLEAR tracking scores follow their definitions for every history."""
import itertools
import math

from hypothesis import strategies as st

from vlib import desc as D
from vlib import gen as GEN
from vlib import matchlib as ML
from vlib import mgrlib as MG
from vlib import ref_clear as RC
from vlib.harness import Check

CHECK = Check(
    "C05",
    rule=(
        "(a) every well-formed history of 2 frames (quick and thorough) and 3 frames (complete in both tiers: 21952) "
        "over estimate ids {a,b}, GT ids {g,h,None}, scores {inside, outside threshold}, <=2 results per frame, built "
        "from real object results; (b) tracker simulations (persistent GT tracks; events keep / new-id / swap / miss / "
        "false alarm / drift over threshold / other label), all four matching modes, with id renamings and the "
        "perfect / new-id / swap metamorphic variants; ill-formed frames for the accounting identity only; (c) real "
        "manager in tracking task, frame level and scene level. Non-trivial = history with >=2 evaluated frames "
        "containing a switch or a carried pairing, and >=1 FP; distinct by descriptor hash."
    ),
    assumptions=[
        "P7: frames are well-formed (unique estimate (id,label) per frame, each GT in at most one result) for the switch "
        "semantics; the accounting identity tp + fp = evaluated results is also checked on ill-formed frames",
        "open choices accepted: a result repeating a previous TP pairing whose own score fails may be TP or FP; the score "
        "entering MOTP for a carried TP may be the previous or the current one (interval checks)",
        "tolerance 1e-9",
    ],
    design_ref="§6 C05",
)

TOL = 1e-9
THR = 1.0
_RC = {}


def _result(eid, gid, s, elabel="car", glabel="car", policy="DEFAULT", yaw_off=0.0):
    """Real object result: estimate `eid` at centre distance `s` from GT `gid` (None = no GT)."""
    key = (eid, gid, s, elabel, glabel, policy)
    if key in _RC:
        return _RC[key]
    from perception_eval.evaluation.result.object_result import DynamicObjectWithPerceptionResult

    g = {"p": [12.0, -4.0, 0.0], "yaw": 0.2, "size": [2.0, 4.5, 1.6], "label": glabel, "score": 1.0, "uuid": gid}
    e = {"p": [12.0 + (s or 0.0), -4.0, 0.0], "yaw": 0.2, "size": [2.0, 4.5, 1.6], "label": elabel, "score": 0.8, "uuid": eid}
    r = DynamicObjectWithPerceptionResult(D.obj3d(e), D.obj3d(g) if gid is not None else None, D.policy(policy))
    if len(_RC) < 20000:
        _RC[key] = r
    return r


def _clear(ctx, frames_real, num_gt, mode="CENTERDISTANCE", thr=THR, label="car"):
    from perception_eval.evaluation.metrics.tracking.clear import CLEAR

    c = None
    with ctx.under_test("CLEAR(...)"):
        c = CLEAR(
            object_results=frames_real,
            num_ground_truth=num_gt,
            target_labels=[D.label_type(label)],
            matching_mode=D.mode(mode),
            matching_threshold_list=[thr],
        )
    return c


def _check_against_ref(ctx, c, ref, num_gt, what=""):
    """CLEAR instance `c` vs reference accumulation `ref`."""
    tp, fp, sw = c.tp, c.fp, c.id_switch
    ctx.require(abs((tp + fp) - ref["n_eval"]) <= TOL, "tp-plus-fp-not-evaluated-results", lambda: f"{what}tp {tp} + fp {fp} != {ref['n_eval']} evaluated results")
    ctx.require(ref["tp"][0] - TOL <= tp <= ref["tp"][1] + TOL, "tp-count", lambda: f"{what}tp {tp} outside reference {ref['tp']}")
    ctx.require(ref["fp"][0] - TOL <= fp <= ref["fp"][1] + TOL, "fp-count", lambda: f"{what}fp {fp} outside reference {ref['fp']}")
    if not ref["open"]:
        ctx.require(sw == ref["sw"], "id-switch-count", lambda: f"{what}id_switch {sw} vs reference {ref['sw']}")
    # MOTA from the reported counts (definition) ...
    if num_gt == 0:
        ctx.require(c.mota == float("inf"), "mota-undefined", lambda: f"{what}MOTA {c.mota} with no ground truth")
    else:
        exp = max(0.0, (tp - fp - sw) / num_gt)
        ctx.require(abs(c.mota - exp) <= TOL, "mota-formula", lambda: f"{what}MOTA {c.mota} vs max(0,(tp-fp-sw)/gt) = {exp}")
        if not ref["open"]:
            exp2 = RC.mota(ref["tp"][0], ref["fp"][0], ref["sw"], num_gt)
            ctx.require(abs(c.mota - exp2) <= TOL, "mota-value", lambda: f"{what}MOTA {c.mota} vs reference {exp2}")
    # MOTP = mean matching score over TPs
    if tp == 0:
        ctx.require(c.motp == float("inf"), "motp-undefined", lambda: f"{what}MOTP {c.motp} with no TP")
    else:
        ctx.require(abs(c.motp * tp - c.tp_matching_score) <= 1e-9 * (1 + abs(c.tp_matching_score)), "motp-formula", lambda: f"{what}MOTP {c.motp} * tp {tp} != score sum {c.tp_matching_score}")
        lo, hi = ref["score"]
        ctx.require(lo - 1e-9 * (1 + abs(lo)) <= c.tp_matching_score <= hi + 1e-9 * (1 + abs(hi)), "motp-score-sum", lambda: f"{what}TP score sum {c.tp_matching_score} outside reference [{lo}, {hi}]")


# ------------------------------------------------------------------------------------------------
# (a) exhaustive small histories
# ------------------------------------------------------------------------------------------------

IN = {"a": 0.2, "b": 0.4}
OUT = {"a": 2.0, "b": 2.5}


def _frames_small():
    opts = {}
    for e in "ab":
        o = [(e, None, None)]
        for g in "gh":
            o.append((e, g, "in"))
            o.append((e, g, "out"))
        opts[e] = o
    frames = [()]
    for e in "ab":
        for r in opts[e]:
            frames.append((r,))
    for ra in opts["a"]:
        for rb in opts["b"]:
            if ra[1] is not None and ra[1] == rb[1]:
                continue
            frames.append((ra, rb))
            frames.append((rb, ra)) if False else None
    return frames


def gen_small(tier):
    fr = _frames_small()
    idx = range(len(fr))
    for n in (2, 3):
        for combo in itertools.product(idx, repeat=n):
            yield {"h": [[list(r) for r in fr[i]] for i in combo]}


def _to_ref(r, thr=THR):
    e, g, k = r
    s = None if g is None else (IN[e] if k == "in" else OUT[e])
    return {"e": e, "el": "car", "g": g, "s": s, "ok": g is not None and s < thr, "ev": True}


@CHECK.enum("small_histories", gen_small)
def small_histories(ctx, d):
    h = d["h"]
    real = [[_result(e, g, None if g is None else (IN[e] if k == "in" else OUT[e])) for e, g, k in f] for f in h]
    ref = RC.accumulate([[_to_ref(r) for r in f] for f in h])
    num_gt = 2 * (len(h) - 1)
    c = _clear(ctx, real, num_gt)
    if c is None:
        return
    _check_against_ref(ctx, c, ref, num_gt)
    has_fp = ref["fp"][1] > 0
    ctx.mark_nontrivial(len(h) >= 3 and (ref["sw"] > 0 or ref["carried"] > 0) and has_fp)
    if ref["open"]:
        ctx.cls("open_choice")
    if ref["sw"]:
        ctx.cls("has_switch")
    if ref["carried"]:
        ctx.cls("has_carried")
    c0 = _clear(ctx, real, 0)
    if c0 is not None:
        ctx.require(c0.mota == float("inf"), "mota-undefined", f"MOTA {c0.mota} with num_ground_truth=0")


# ------------------------------------------------------------------------------------------------
# (b) tracker simulations
# ------------------------------------------------------------------------------------------------

SCORES = {
    "CENTERDISTANCE": ([0.1, 0.3, 0.6, 0.9], [1.3, 2.0, 4.0], 1.0),
    "PLANEDISTANCE": ([0.1, 0.3, 0.6, 0.9], [1.3, 2.0, 4.0], 1.0),
}
THRESHOLD_CHOICES = [None, None, None, None, 0.0, 5.0]  # None = the mode's default; 0 = nothing matches; 5 = everything


@st.composite
def simulations(draw, tier="quick"):
    n_tracks = draw(st.integers(1, 8 if tier == "thorough" else 5))
    n_frames = draw(st.integers(2, 30 if tier == "thorough" else 9))
    mode = draw(st.sampled_from(["CENTERDISTANCE", "PLANEDISTANCE"]))
    ins, outs, thr = SCORES[mode]
    thr_override = draw(st.sampled_from(THRESHOLD_CHOICES))
    if thr_override is not None:
        thr = thr_override
    ids = {k: f"t{k}" for k in range(n_tracks)}
    next_id = n_tracks
    frames = []
    for t in range(n_frames):
        fr = []
        events = []
        for k in range(n_tracks):
            ev = draw(st.sampled_from(["keep", "keep", "keep", "keep", "newid", "miss", "drift", "swap", "otherlabel", "ignored"]))
            if ev == "newid":
                ids[k] = f"t{next_id}"
                next_id += 1
            elif ev == "swap" and n_tracks > 1:
                j = draw(st.integers(0, n_tracks - 1))
                ids[k], ids[j] = ids[j], ids[k]
            events.append(ev)
        for k in range(n_tracks):
            ev = events[k]
            if ev == "miss":
                continue
            s = draw(st.sampled_from(outs if ev == "drift" else ins))
            el = "pedestrian" if ev == "otherlabel" else "car"
            gl = "pedestrian" if ev == "ignored" else "car"
            fr.append({"e": ids[k], "el": el, "g": f"g{k}", "gl": gl, "s": s})
        for _ in range(draw(st.integers(0, 2))):
            fr.append({"e": f"t{next_id}", "el": "car", "g": None, "gl": None, "s": None})
            next_id += 1
        # keep frames well-formed: unique (id, label)
        seen, wf = set(), []
        for r in fr:
            if (r["e"], r["el"]) in seen:
                continue
            seen.add((r["e"], r["el"]))
            wf.append(r)
        order = draw(st.permutations(list(range(len(wf)))))
        frames.append([wf[i] for i in order])
    return {"mode": mode, "thr": thr, "frames": frames, "policy": draw(st.sampled_from(["DEFAULT", "ALLOW_ANY"])), "n_tracks": n_tracks, "rename": draw(st.integers(1, 5))}


def _sim_ref(r, thr, policy):
    compat = r["g"] is not None and ML.compatible(policy, r["el"], r["gl"])
    ev = (r["gl"] == "car") if r["g"] is not None else (r["el"] == "car")
    return {"e": r["e"], "el": r["el"], "g": r["g"], "s": r["s"], "ok": bool(compat and r["s"] < thr), "ev": ev}


def _sim_real(r, mode, policy):
    if mode == "PLANEDISTANCE":
        # plane distance of a pure x-shift equals the shift
        pass
    return _result(r["e"], r["g"], r["s"], r["el"], r["gl"] or "car", policy)


@CHECK.given("simulations", lambda tier: simulations(tier), quick=120, thorough=6000)
def sim(ctx, d):
    frames, mode, thr, pol = d["frames"], d["mode"], d["thr"], d["policy"]
    real = [[_sim_real(r, mode, pol) for r in f] for f in frames]
    ref = RC.accumulate([[_sim_ref(r, thr, pol) for r in f] for f in frames])
    num_gt = d["n_tracks"] * (len(frames) - 1)
    c = _clear(ctx, real, num_gt, mode, thr)
    if c is None:
        return
    _check_against_ref(ctx, c, ref, num_gt)
    ctx.mark_nontrivial(len(frames) >= 3 and (ref["sw"] > 0 or ref["carried"] > 0) and ref["fp"][1] > 0)
    ctx.cls("mode_" + mode)
    if ref["open"]:
        ctx.cls("open_choice")
    if ref["sw"]:
        ctx.cls("has_switch")
    # consistent renaming of estimate ids and GT ids leaves every number unchanged
    k = d["rename"]
    ren = [[dict(r, e="x" + r["e"][::-1] + str(k), g=None if r["g"] is None else "y" + r["g"] + str(k)) for r in f] for f in frames]
    c2 = _clear(ctx, [[_sim_real(r, mode, pol) for r in f] for f in ren], num_gt, mode, thr)
    if c2 is not None:
        same = (abs(c2.tp - c.tp) <= TOL and abs(c2.fp - c.fp) <= TOL and c2.id_switch == c.id_switch and (c2.mota == c.mota or abs(c2.mota - c.mota) <= TOL) and (c2.motp == c.motp or abs(c2.motp - c.motp) <= TOL))
        ctx.require(same, "renaming-changes-scores", lambda: f"{c.results} vs renamed ids {c2.results}")


@st.composite
def perfect_cases(draw, tier="quick"):
    n_tracks = draw(st.integers(2, 6))
    n_frames = draw(st.integers(3, 10))
    return {
        "n_tracks": n_tracks,
        "n_frames": n_frames,
        "scores": [[draw(st.sampled_from([0.1, 0.3, 0.6, 0.9])) for _ in range(n_tracks)] for _ in range(n_frames)],
        "t": draw(st.integers(1, n_frames - 1)),
        "i": draw(st.integers(0, n_tracks - 1)),
        "j": draw(st.integers(0, n_tracks - 1)),
    }


@CHECK.given("perfect_and_variants", lambda tier: perfect_cases(tier), quick=120, thorough=4000)
def perfect_and_variants(ctx, d):
    n, m = d["n_tracks"], d["n_frames"]

    def build(idmap):
        return [[_result(idmap(t, k), f"g{k}", d["scores"][t][k]) for k in range(n)] for t in range(m)]

    num_gt = n * (m - 1)
    base = _clear(ctx, build(lambda t, k: f"t{k}"), num_gt)
    if base is None:
        return
    mean = sum(d["scores"][t][k] for t in range(1, m) for k in range(n)) / num_gt
    ctx.mark_nontrivial()
    ctx.require(abs(base.mota - 1.0) <= TOL and base.id_switch == 0 and abs(base.fp) <= TOL, "perfect-tracker", lambda: f"perfect tracker scores {base.results}")
    # MOTP: mean matching score over TPs (the score of a carried TP may be the previous or the current one)
    lo = sum(min(d["scores"][t][k], d["scores"][t - 1][k]) for t in range(1, m) for k in range(n)) / num_gt
    hi = sum(max(d["scores"][t][k], d["scores"][t - 1][k]) for t in range(1, m) for k in range(n)) / num_gt
    ctx.require(lo - TOL <= base.motp <= hi + TOL, "perfect-tracker-motp", lambda: f"MOTP {base.motp} outside [{lo}, {hi}] (mean of current scores {mean})")
    t0, i, j = d["t"], d["i"], d["j"]
    newid = _clear(ctx, build(lambda t, k: f"n{k}" if (k == i and t >= t0) else f"t{k}"), num_gt)
    if newid is not None:
        ctx.require(newid.id_switch == 1 and abs(newid.tp - base.tp) <= TOL and abs(newid.fp) <= TOL, "new-id-costs-one-switch", lambda: f"new id for track {i} from frame {t0}: {newid.results}")
    if i != j:
        sw = {i: j, j: i}
        swapped = _clear(ctx, build(lambda t, k: f"t{sw.get(k, k)}" if t >= t0 else f"t{k}"), num_gt)
        if swapped is not None:
            ctx.require(swapped.id_switch == 2 and abs(swapped.tp - base.tp) <= TOL, "swap-costs-two-switches", lambda: f"swapping tracks {i},{j} from frame {t0}: {swapped.results}")


@st.composite
def illformed(draw, tier="quick"):
    n_frames = draw(st.integers(2, 6))
    frames = []
    for _ in range(n_frames):
        fr = []
        for _ in range(draw(st.integers(0, 6))):
            g = draw(st.sampled_from(["g0", "g1", "g2", None]))
            fr.append({"e": draw(st.sampled_from(["t0", "t1", "t2"])), "el": draw(st.sampled_from(["car", "car", "pedestrian"])), "g": g, "gl": draw(st.sampled_from(["car", "car", "pedestrian"])) if g else None, "s": draw(st.sampled_from([0.2, 0.7, 1.5, 3.0])) if g else None})
        frames.append(fr)
    return {"frames": frames, "policy": draw(st.sampled_from(["DEFAULT", "ALLOW_ANY"]))}


@CHECK.given("illformed_accounting", lambda tier: illformed(tier), quick=150, thorough=6000)
def illformed_accounting(ctx, d):
    frames, pol = d["frames"], d["policy"]
    real = [[_sim_real(r, "CENTERDISTANCE", pol) for r in f] for f in frames]
    n_eval = sum(1 for f in frames[1:] for r in f if _sim_ref(r, THR, pol)["ev"])
    c = _clear(ctx, real, 5)
    if c is None:
        return
    ctx.mark_nontrivial(n_eval >= 2)
    ctx.require(abs(c.tp + c.fp - n_eval) <= TOL, "tp-plus-fp-not-evaluated-results", lambda: f"tp {c.tp} + fp {c.fp} != {n_eval} evaluated results (ill-formed frames)")
    ctx.require(c.results["predict_num"] == sum(len(f) for f in frames[1:]), "predict-num", lambda: f"{c.results['predict_num']}")


# ------------------------------------------------------------------------------------------------
# (c) real manager, tracking task: frame-level ([prev, cur]) and scene-level CLEAR vs the reference
# ------------------------------------------------------------------------------------------------


@st.composite
def tracking_histories(draw, tier="quick"):
    d = draw(MG.manager_cases(tier, tasks=("tracking",), frames_fixed=1, max_obj=draw(st.sampled_from([3, 5, 7]))))
    f0 = d["frames"][0]
    targets = d["targets"]
    n_frames = draw(st.integers(2, 5 if tier == "thorough" else 4))
    # estimates of frame 0: one per GT (persistent tracks), built next to the GT
    tracks = {}
    est0 = []
    for k, g in enumerate(f0["gt"]):
        if draw(st.integers(0, 5)) == 0:
            continue
        tracks[k] = f"t{k}"
    next_id = len(f0["gt"])
    frames = []
    gts = [dict(g) for g in f0["gt"]]
    for t in range(n_frames):
        if t > 0:
            gts = [dict(g, p=[g["p"][0] + draw(GEN.fl(-0.5, 0.5)), g["p"][1] + draw(GEN.fl(-0.5, 0.5)), g["p"][2]]) for g in gts]
        ests = []
        for k, g in enumerate(gts):
            if k not in tracks:
                if draw(st.integers(0, 3)) == 0:
                    tracks[k] = f"t{next_id}"
                    next_id += 1
                else:
                    continue
            ev = draw(st.sampled_from(["keep", "keep", "keep", "keep", "newid", "miss", "drift", "swap", "label"]))
            if ev == "newid":
                tracks[k] = f"t{next_id}"
                next_id += 1
            elif ev == "swap" and len(tracks) > 1:
                j = draw(st.sampled_from(sorted(tracks)))
                tracks[k], tracks[j] = tracks[j], tracks[k]
            elif ev == "miss":
                continue
            r = draw(st.sampled_from([0.1, 0.25, 0.4])) if ev != "drift" else draw(st.sampled_from([1.3, 2.6, 5.0]))
            ang = draw(GEN.fl(-3.1, 3.1))
            lab = g["label"] if g["label"] != "false_positive" else targets[0]
            if ev == "label":
                lab = draw(st.sampled_from(targets + ["unknown"]))
            dyaw = draw(st.sampled_from([0.0, 0.0, 0.2, -0.5, 1.5]))
            ests.append({"p": [g["p"][0] + r * math.cos(ang), g["p"][1] + r * math.sin(ang), g["p"][2]], "yaw": math.atan2(math.sin(g["yaw"] + dyaw), math.cos(g["yaw"] + dyaw)) if dyaw else g["yaw"], "qs": draw(st.sampled_from([1, -1])), "size": list(g["size"]), "label": lab, "score": min(0.9999, draw(GEN.fl(0.05, 0.95)) + (t * 41 + k) * 1e-5), "trk": k})
        for e in ests:
            e["uuid"] = tracks[e.pop("trk")]
        if 0 < t < n_frames - 1 and draw(st.integers(0, 4)) == 0:
            ests = []  # a frame in which the tracker reports nothing at all (gap in every label's history)
        for _ in range(draw(st.integers(0, 2)) if ests or t == 0 or draw(st.booleans()) else 0):
            ests.append({"p": [draw(GEN.fl(-30, 30)), draw(GEN.fl(-30, 30)), 0.0], "yaw": 0.0, "qs": 1, "size": [2.0, 4.0, 1.5], "label": draw(st.sampled_from(targets)), "score": min(0.9999, draw(GEN.fl(0.05, 0.95)) + (t * 41 + 20 + next_id % 20) * 1e-5), "uuid": f"t{next_id}"})
            next_id += 1
        crit = f0["crit"]
        if t > 0 and draw(st.booleans()):
            crit = draw(MG.range_cfg(len(targets), narrow=True, allow_uuids=True, n_gt=len(gts)))
            if crit.get("uuids"):
                crit["uuids"] = [f"g0_{u[1:]}" for u in crit["uuids"]]
        frames.append({"ego": draw(GEN.ego_poses()), "gt": [dict(g) for g in gts], "est": ests, "crit": crit, "pf": f0["pf"]})
    d["frames"] = frames
    return d


def _ref_bucket(results, L, targets, policy, mode, thr):
    out = []
    dist = mode in ("CENTERDISTANCE", "PLANEDISTANCE")
    for r in results:
        el = r.estimated_object.semantic_label.label.value
        g = r.ground_truth_object
        gl = None if g is None else g.semantic_label.label.value
        in_bucket = el == L or (el not in targets and gl == L)
        if not in_bucket:
            continue
        s = None
        ok = False
        if g is not None:
            s = float(r.get_matching(D.mode(mode)).value)
            # an estimate sitting on a false_positive-labelled GT is never a TP (it is what FP validation flags)
            ok = gl != "false_positive" and ML.compatible(policy, el, gl) and (s < thr if dist else s > thr)
        ev = (gl == L) if g is not None else (el == L)
        out.append({"e": r.estimated_object.uuid, "el": el, "g": None if g is None else g.uuid, "s": s, "ok": ok, "ev": ev})
    return out


@CHECK.given("manager_tracking", lambda tier: tracking_histories(tier), quick=60, thorough=2500)
def manager_tracking(ctx, d):
    run = MG.run_case(ctx, d)
    if run is None:
        return
    targets, pol = d["targets"], d["policy"]
    results = run["results"]
    nt = False
    # frame level
    for i, res in enumerate(results):
        prev = results[i - 1].object_results if i > 0 else []
        for ts, row in zip(res.metrics_score.tracking_scores, MG.configured_rows(ctx, d, res.metrics_score.tracking_scores, "frame-tracking")):
            mode = ts.matching_mode.name
            ctx.require(len(ts.clears) == len(targets), "clear-count", lambda: f"{len(ts.clears)} CLEAR objects for {len(targets)} target labels")
            for li, (L, clear) in enumerate(zip(targets, ts.clears)):
                thr = row[li] if row is not None else clear.matching_threshold_list[0]  # the label's CONFIGURED threshold
                ref = RC.accumulate([_ref_bucket(prev, L, targets, pol, mode, thr), _ref_bucket(res.object_results, L, targets, pol, mode, thr)])
                num_gt = sum(1 for g in res.frame_ground_truth.objects if g.semantic_label.label.value == L)
                ctx.require(clear.num_ground_truth == num_gt, "frame-num-gt", lambda: f"frame {i} label {L}: CLEAR counts {clear.num_ground_truth} GTs, critical GTs of that label: {num_gt}")
                _check_against_ref(ctx, clear, ref, clear.num_ground_truth, what=f"frame {i} {mode} {L}: ")
                if ref["sw"] or ref["carried"]:
                    nt = True
                    ctx.cls("frame_with_switch_or_carry")
            _check_sum(ctx, ts, f"frame {i} {mode}: ")
    # scene level
    scene = None
    with ctx.under_test("get_scene_result"):
        scene = run["mgr"].get_scene_result()
    if scene is not None:
        for ts, row in zip(scene.tracking_scores, MG.configured_rows(ctx, d, scene.tracking_scores, "scene-tracking")):
            mode = ts.matching_mode.name
            for li, (L, clear) in enumerate(zip(targets, ts.clears)):
                thr = row[li] if row is not None else clear.matching_threshold_list[0]
                hist = [[]] + [_ref_bucket(r.object_results, L, targets, pol, mode, thr) for r in results]
                ref = RC.accumulate(hist)
                num_gt = sum(1 for r in results for g in r.frame_ground_truth.objects if g.semantic_label.label.value == L)
                ctx.require(clear.num_ground_truth == num_gt, "scene-num-gt", lambda: f"scene label {L}: {clear.num_ground_truth} vs {num_gt}")
                _check_against_ref(ctx, clear, ref, clear.num_ground_truth, what=f"scene {mode} {L}: ")
                if ref["sw"]:
                    ctx.cls("scene_with_switch")
            _check_sum(ctx, ts, f"scene {mode}: ")
    ctx.mark_nontrivial(nt)


def _check_sum(ctx, ts, what):
    """TrackingMetricsScore._sum_clear = GT-weighted MOTA, TP-weighted MOTP, summed switches."""
    mota, motp, sw = None, None, None
    with ctx.under_test("_sum_clear"):
        mota, motp, sw = ts._sum_clear()
    if sw is None:
        return
    ctx.require(sw == sum(c.id_switch for c in ts.clears), "sum-clear-switches", lambda: f"{what}{sw}")
    ngt = sum(c.num_ground_truth for c in ts.clears)
    ntp = sum(int(c.tp) for c in ts.clears)
    if ngt == 0:
        ctx.require(mota == float("inf"), "sum-clear-mota", lambda: f"{what}MOTA {mota} without GT")
    else:
        exp = max(0.0, sum(c.mota * c.num_ground_truth for c in ts.clears if c.mota != float("inf")) / ngt)
        ctx.require(abs(mota - exp) <= TOL, "sum-clear-mota", lambda: f"{what}MOTA {mota} vs GT-weighted mean {exp}")
    if ntp == 0:
        ctx.require(motp == float("inf"), "sum-clear-motp", lambda: f"{what}MOTP {motp} without TP")
    else:
        exp = sum(c.motp * c.tp for c in ts.clears if c.motp != float("inf")) / ntp
        ctx.require(abs(motp - exp) <= 1e-9 * (1 + abs(exp)), "sum-clear-motp", lambda: f"{what}MOTP {motp} vs TP-weighted mean {exp}")


# ---- (c2) tracking2d through the manager (ROI objects, centre distance in px / IoU2D) -----------------


def _tracking2d_cases(tier):
    return MG.manager_cases2d(tier, tasks=("tracking2d",), max_frames=4)


@CHECK.given("manager_tracking2d", _tracking2d_cases, quick=60, thorough=2500)
def manager_tracking2d(ctx, d):
    run = MG.run_case2d(ctx, d)
    if run is None:
        return
    targets, pol = d["targets"], d["policy"]
    results = run["results"]
    for i, res in enumerate(results):
        prev = results[i - 1].object_results if i > 0 else []
        for ts, row in zip(res.metrics_score.tracking_scores, MG.configured_rows(ctx, d, res.metrics_score.tracking_scores, "frame-tracking2d")):
            mode = ts.matching_mode.name
            for li, (L, clear) in enumerate(zip(targets, ts.clears)):
                thr = row[li] if row is not None else clear.matching_threshold_list[0]
                ref = RC.accumulate([_ref_bucket(prev, L, targets, pol, mode, thr), _ref_bucket(res.object_results, L, targets, pol, mode, thr)])
                _check_against_ref(ctx, clear, ref, clear.num_ground_truth, what=f"2D frame {i} {mode} {L}: ")
            _check_sum(ctx, ts, f"2D frame {i} {mode}: ")
    scene = None
    with ctx.under_test("get_scene_result"):
        scene = run["mgr"].get_scene_result()
    nt = False
    if scene is not None:
        for ts, row in zip(scene.tracking_scores, MG.configured_rows(ctx, d, scene.tracking_scores, "scene-tracking2d")):
            mode = ts.matching_mode.name
            for li, (L, clear) in enumerate(zip(targets, ts.clears)):
                thr = row[li] if row is not None else clear.matching_threshold_list[0]
                ref = RC.accumulate([[]] + [_ref_bucket(r.object_results, L, targets, pol, mode, thr) for r in results])
                _check_against_ref(ctx, clear, ref, clear.num_ground_truth, what=f"2D scene {mode} {L}: ")
                nt = nt or ref["n_eval"] >= 2
            _check_sum(ctx, ts, f"2D scene {mode}: ")
    ctx.mark_nontrivial(nt)
