"""C06 — matching scores are geometrically exact, bounded, symmetric and invariant under common rigid motions."""
import math
from fractions import Fraction

from hypothesis import strategies as st

from vlib import desc as D
from vlib import gen as GEN
from vlib import ref_geom as G
from vlib.harness import Check

PI = math.pi

CHECK = Check(
    "C06",
    rule=(
        "pairs of 3D boxes built by construction in classes {independent, near-identical, nested, touching, "
        "disjoint, sliver, axis-aligned/near multiples of pi/2, corner-overlap, copies perturbed by a few ulps, same-yaw boxes "
        "sharing a side line or corner} with both quaternion signs and z offsets around the "
        "height-overlap boundary, plus a common rigid motion (rotation about the ego, translation up to 1e5 m) and a "
        "map-frame rendering; pairs of integer ROIs likewise. Non-trivial = overlapping, non-identical, "
        "non-axis-aligned pair (0.01 < reference IoU < 0.99 and yaw not within 1e-3 of a multiple of pi/2) for 3D; "
        "partially overlapping ROI pair for 2D; distinct by descriptor hash."
    ),
    assumptions=[
        "P3: boxes have positive size (0.05..30 m), ROIs w,h >= 1; yaw-only orientations (IoU of boxes with roll/pitch "
        "is not defined by the property)",
        "tolerances: distance 1e-6 abs + 1e-9 rel; IoU 1e-7 abs (+1e-14*max|coord|/min_dim for moved copies); bounds "
        "[0,1] within 1e-9; plane distance compared after the library's round(…, 10), ties between the 2nd/3rd "
        "nearest GT corner (within 1e-9) accept either choice",
    ],
    design_ref="§6 C06",
)


def _box(draw, x=None, y=None):
    return {
        "p": [draw(GEN.fl(-60, 60)) if x is None else x, draw(GEN.fl(-60, 60)) if y is None else y, draw(GEN.fl(-2, 2))],
        "yaw": draw(GEN.yaws()),
        "qs": draw(GEN.qsigns()),
        "size": draw(GEN.sizes()),
        "label": "car",
        "score": 0.5,
    }


@st.composite
def pairs3d(draw, tier="quick"):
    kind = draw(st.sampled_from(["indep", "near", "nested", "touch", "disjoint", "sliver", "axis", "overlap", "overlap", "corner", "corner", "ulp", "shared", "diag"]))
    a = _box(draw)
    if kind == "sliver":
        a["size"] = [draw(GEN.fl(0.05, 0.1)), draw(GEN.fl(5, 30)), draw(GEN.fl(0.5, 3))]
    if kind == "axis":
        a["yaw"] = draw(st.sampled_from([0.0, PI / 2, -PI / 2, PI])) + draw(st.sampled_from([0.0, 1e-9, -1e-9, 1e-6]))
        a["yaw"] = math.atan2(math.sin(a["yaw"]), math.cos(a["yaw"]))
    w, l, h = a["size"]
    b = {"qs": draw(GEN.qsigns()), "label": "car", "score": 1.0}
    if kind == "indep":
        b = _box(draw)
        b["score"] = 1.0
    elif kind == "near":
        e = 1e-3
        b.update(
            p=[a["p"][0] + draw(GEN.fl(-e, e)), a["p"][1] + draw(GEN.fl(-e, e)), a["p"][2] + draw(GEN.fl(-e, e))],
            yaw=a["yaw"] + draw(GEN.fl(-e, e)),
            size=[w * (1 + draw(GEN.fl(-e, e))), l * (1 + draw(GEN.fl(-e, e))), h * (1 + draw(GEN.fl(-e, e)))],
        )
    elif kind == "ulp":
        # a's copy with every parameter moved by a few units in the last place (a box that went through a frame round
        # trip): the class in which the GEOS overlay loses the intersection (known finding, see NC_SIG)
        def nudge(v):
            k = draw(st.integers(-4, 4))
            for _ in range(abs(k)):
                v = math.nextafter(v, math.inf if k > 0 else -math.inf)
            return v

        b.update(p=[nudge(c) for c in a["p"]], yaw=nudge(a["yaw"]), size=[nudge(c) for c in a["size"]])
    elif kind == "shared":
        # same yaw and a shared side line: same centre and width with another length, or b scaled about one of a's corners
        c, sn = math.cos(a["yaw"]), math.sin(a["yaw"])
        if draw(st.booleans()):
            b.update(p=list(a["p"]), yaw=a["yaw"], size=[w, l * draw(GEN.fl(0.3, 1.7)), h])
        else:
            f = draw(GEN.fl(0.3, 0.95))
            dx, dy = draw(st.sampled_from([1, -1])) * (1 - f) * l / 2, draw(st.sampled_from([1, -1])) * (1 - f) * w / 2
            b.update(p=[a["p"][0] + c * dx - sn * dy, a["p"][1] + sn * dx + c * dy, a["p"][2]], yaw=a["yaw"], size=[w * f, l * f, h])
    elif kind == "nested":
        s = draw(GEN.fl(0.2, 0.9))
        b.update(p=list(a["p"]), yaw=a["yaw"] + draw(st.sampled_from([0.0, PI, PI / 2])), size=[w * s, l * s, h * draw(GEN.fl(0.3, 1.5))])
        if abs(math.sin(b["yaw"] - a["yaw"])) > 0.5:
            m = min(w, l) * s
            b["size"] = [m, m, b["size"][2]]
    elif kind == "corner":
        # overlap only near the corners: b displaced along both of a's axes by almost the sum of the half extents,
        # so that the centre distance lies between (l1+l2)/2 and the sum of the half diagonals
        wb, lb = w * draw(GEN.fl(0.5, 1.6)), l * draw(GEN.fl(0.5, 1.6))
        fx, fy = draw(GEN.fl(0.55, 1.05)), draw(GEN.fl(0.55, 1.05))
        sx, sy = draw(st.sampled_from([1, -1])), draw(st.sampled_from([1, -1]))
        c, s = math.cos(a["yaw"]), math.sin(a["yaw"])
        dx, dy = sx * fx * (l + lb) / 2, sy * fy * (w + wb) / 2
        b.update(
            p=[a["p"][0] + c * dx - s * dy, a["p"][1] + s * dx + c * dy, a["p"][2] + draw(GEN.fl(-0.3, 0.3)) * h],
            yaw=a["yaw"] + draw(st.sampled_from([0.0, 0.0, 0.05, -0.2, PI])),
            size=[wb, lb, h * draw(GEN.fl(0.7, 1.3))],
        )
    elif kind == "diag":
        # the ground truth b is axis-aligned and placed so that one corner is strictly nearest to the ego and its two
        # neighbouring corners are exactly equidistant (2nd / 3rd place tie: either neighbour completes "the nearest side");
        # the estimate differs in size and heading, so that the four corner offsets differ
        lb, wb = draw(st.sampled_from([1.0, 2.0, 4.0])), draw(st.sampled_from([1.0, 2.0, 4.0]))
        m = draw(st.sampled_from([0.0, 0.5, 1.0, 3.0, 8.0]))
        cx, cy = m, (2 * lb * m + lb * lb - wb * wb) / (2 * wb)
        if cy <= 0:
            lb, wb = wb, lb
            cy = (2 * lb * m + lb * lb - wb * wb) / (2 * wb)
        if cx == 0 and cy == 0:
            cx = cy = 2.0
            lb = wb
        sx, sy = draw(st.sampled_from([1, -1])), draw(st.sampled_from([1, -1]))
        b.update(p=[sx * (cx + lb / 2), sy * (cy + wb / 2), 0.25], yaw=0.0, size=[wb, lb, 1.5], qs=1)
        a.update(
            p=[b["p"][0] + draw(st.sampled_from([0.0, 0.25, -0.5])), b["p"][1] + draw(st.sampled_from([0.0, -0.25, 0.5])), 0.0],
            yaw=draw(st.sampled_from([0.0, 0.2, -0.3, 1.0])),
            size=[wb * draw(st.sampled_from([1.0, 1.25, 0.5])), lb * draw(st.sampled_from([1.5, 0.75, 1.0])), 1.5],
        )
    elif kind in ("touch", "disjoint"):
        # b is a's copy shifted along a's length axis by exactly l (touch) or more (disjoint)
        k = 1.0 if kind == "touch" else draw(GEN.fl(1.05, 4.0))
        c, s = math.cos(a["yaw"]), math.sin(a["yaw"])
        b.update(p=[a["p"][0] + k * l * c, a["p"][1] + k * l * s, a["p"][2]], yaw=a["yaw"], size=[w, l, h])
    else:  # sliver / axis / overlap: partial overlap
        r = draw(GEN.fl(0.0, 0.8)) * min(w, l)
        ang = draw(GEN.fl(-PI, PI))
        b.update(
            p=[a["p"][0] + r * math.cos(ang), a["p"][1] + r * math.sin(ang), a["p"][2] + draw(GEN.fl(-1.2, 1.2)) * h],
            yaw=a["yaw"] + draw(st.sampled_from([0.0, 0.1, -0.4, PI / 2, PI, 1.0])) if kind != "axis" else a["yaw"] + draw(st.sampled_from([0.0, PI / 2])),
            size=[w * draw(GEN.fl(0.6, 1.5)), l * draw(GEN.fl(0.6, 1.5)), h * draw(GEN.fl(0.6, 1.5))],
        )
    b["yaw"] = math.atan2(math.sin(b["yaw"]), math.cos(b["yaw"]))
    motion = [draw(GEN.fl(-PI, PI)), draw(st.sampled_from([0.0, 10.0, 1e3, 1e5])) * draw(GEN.fl(-1, 1)), draw(st.sampled_from([0.0, 10.0, 1e3, 1e5])) * draw(GEN.fl(-1, 1))]
    return {"kind": kind, "a": a, "b": b, "motion": motion, "ego": draw(GEN.ego_poses())}


def _moved(o, dyaw, dx, dy):
    c, s = math.cos(dyaw), math.sin(dyaw)
    x, y, z = o["p"]
    m = dict(o)
    m["p"] = [c * x - s * y + dx, s * x + c * y + dy, z]
    m["yaw"] = math.atan2(math.sin(o["yaw"] + dyaw), math.cos(o["yaw"] + dyaw))
    return m


def _scores(ctx, e, g, tr=None, what="scores"):
    from perception_eval.evaluation.matching.object_matching import (
        CenterDistanceMatching,
        IOU2dMatching,
        IOU3dMatching,
        PlaneDistanceMatching,
    )

    out = None
    with ctx.under_test(what):
        out = {
            "cd": float(CenterDistanceMatching(e, g).value),
            "iou2": float(IOU2dMatching(e, g).value),
            "iou3": float(IOU3dMatching(e, g).value),
            "pd": float(PlaneDistanceMatching(e, g, transforms=tr).value),
        }
    return out


def close(a, b, abs_tol, rel=0.0):
    return abs(a - b) <= abs_tol + rel * max(abs(a), abs(b))


# Known finding (DESIGN §11 D19): when an edge of one footprint lies on (or within a few ulps of) the supporting line of an
# edge of the other and the two edges overlap — boxes that coincide up to rounding, or a box nested in another with the
# same yaw and a shared side line or corner — the GEOS overlay behind shapely's Polygon.intersection can return a
# degenerate geometry (shared corners as a MULTIPOINT, area 0) in ONE argument order, so the library reports IoU 0 for
# boxes that overlap — or a polygon that is up to ~10 % too large, so that boxes coinciding up to rounding get IoU > 1.  Measured: ~0.9 % of same-centre / same-yaw / same-width pairs, ~0.25 % of copies perturbed by one
# ulp per parameter, none in 360 000 pairs without such an edge pair.
NC_SIG = "collinear-overlapping-edges-intersection-lost"


def near_coincident(a, b):
    """True iff some edge of a and some edge of b are collinear within 1e-9 * scale and overlap (not bit-identical boxes)."""
    ca, cb = G.rect_corners(*D.ego_box(a)), G.rect_corners(*D.ego_box(b))
    if ca == cb:
        return False
    scale = max(1.0, max(abs(c) for p in ca + cb for c in p))
    tol = 1e-9 * scale

    def line_dist(p, q0, q1):
        ex, ey = q1[0] - q0[0], q1[1] - q0[1]
        n = math.hypot(ex, ey)
        return abs((p[0] - q0[0]) * ey - (p[1] - q0[1]) * ex) / n, ((p[0] - q0[0]) * ex + (p[1] - q0[1]) * ey) / n, n

    for i in range(4):
        p0, p1 = ca[i], ca[(i + 1) % 4]
        for j in range(4):
            q0, q1 = cb[j], cb[(j + 1) % 4]
            d0, t0, n = line_dist(p0, q0, q1)
            d1, t1, _ = line_dist(p1, q0, q1)
            if d0 <= tol and d1 <= tol and min(max(t0, t1), n) - max(min(t0, t1), 0.0) > tol:
                return True
    return False


def nsig(nc, sig, *scores):
    """Signature of a failed IoU comparison: the known finding for every pair with collinear overlapping edges (there the
    GEOS overlay returns either nothing — IoU 0 — or a polygon that is too large — IoU up to ~10 % too high, > 1 for boxes that
    coincide up to rounding); the ordinary signature for all other pairs."""
    return NC_SIG if nc else sig


@CHECK.given("pairs3d", lambda tier: pairs3d(tier), quick=700, thorough=160000)
def pairs3d_body(ctx, d):
    a, b = d["a"], d["b"]
    ctx.cls("kind_" + d["kind"])
    ea, gb = D.obj3d(a), D.obj3d(b)
    s = _scores(ctx, ea, gb)
    if s is None:
        return
    ba, bb = D.ego_box(a), D.ego_box(b)
    nc = near_coincident(a, b)
    if nc:
        ctx.cls("collinear_overlapping_edges")
    r_iou2 = G.box_iou_bev(ba, bb)
    r_iou3 = G.box_iou_3d(ba, a["p"][2], a["size"][2], bb, b["p"][2], b["size"][2])
    r_cd = math.dist(a["p"], b["p"])
    axis = min(abs(math.remainder(a["yaw"], PI / 2)), abs(math.remainder(b["yaw"], PI / 2))) < 1e-3
    ctx.mark_nontrivial(0.01 < r_iou2 < 0.99 and not axis)
    if r_iou2 == 0:
        ctx.cls("ref_disjoint")
    elif r_iou2 > 0.99:
        ctx.cls("ref_near_identical")
    else:
        ctx.cls("ref_partial_overlap")

    # exactness
    ctx.require(close(s["cd"], r_cd, 1e-6, 1e-9), "center-distance", lambda: f"center distance {s['cd']} vs Euclidean {r_cd}")
    ctx.require(close(s["iou2"], r_iou2, 1e-7), nsig(nc, "iou2d-value", s), lambda: f"BEV IoU {s['iou2']} vs reference {r_iou2} ({d['kind']})")
    ctx.require(close(s["iou3"], r_iou3, 1e-7), nsig(nc, "iou3d-value", s), lambda: f"3D IoU {s['iou3']} vs reference {r_iou3} ({d['kind']})")
    # bounds
    for k in ("iou2", "iou3"):
        ctx.require(-1e-9 <= s[k] <= 1 + 1e-9, nsig(nc, "iou-out-of-bounds"), lambda: f"{k} = {s[k]}")
    ctx.require(s["iou3"] <= s["iou2"] + 1e-9, "iou3d-exceeds-iou2d", lambda: f"IoU3D {s['iou3']} > IoU2D {s['iou2']}")
    ctx.require(s["pd"] >= 0 and s["cd"] >= 0, "negative-distance", lambda: f"{s}")
    # plane distance from its definition (GT = b)
    vals = G.plane_distance(G.rect_corners(*ba), G.rect_corners(*bb), G.rect_corners(*bb))
    if len(vals) > 1:
        ctx.cls("plane_tie")
    ctx.require(
        any(close(s["pd"], v, 1e-6, 1e-9) for v in vals),
        "plane-distance-value",
        lambda: f"plane distance {s['pd']} vs RMS over the GT's two nearest corners {vals}",
    )
    # symmetry (IoU, centre distance)
    t = _scores(ctx, D.obj3d(b), D.obj3d(a), what="scores(swapped)")
    if t is not None:
        ctx.require(
            close(s["iou2"], t["iou2"], 1e-9) and close(s["iou3"], t["iou3"], 1e-9) and close(s["cd"], t["cd"], 1e-9, 1e-12),
            nsig(nc, "asymmetric-score", s, t),
            lambda: f"{s} vs swapped {t}",
        )
    # identical boxes
    i = _scores(ctx, D.obj3d(a), D.obj3d(dict(a, qs=-a["qs"])), what="scores(identical)")
    if i is not None:
        ctx.require(
            close(i["iou2"], 1, 1e-9) and close(i["iou3"], 1, 1e-9) and close(i["cd"], 0, 1e-12) and close(i["pd"], 0, 1e-9),
            "identical-boxes",
            lambda: f"identical boxes give {i}",
        )
    if d["kind"] == "disjoint":
        ctx.require(s["iou2"] <= 1e-9 and s["iou3"] <= 1e-9, "disjoint-nonzero", lambda: f"disjoint boxes give {s}")

    # invariance under a common rotation about the ego (all four) and translation (distance, IoU)
    dyaw, dx, dy = d["motion"]
    min_dim = min(a["size"][0], a["size"][1], b["size"][0], b["size"][1])
    ra, rb = _moved(a, dyaw, 0, 0), _moved(b, dyaw, 0, 0)
    r = _scores(ctx, D.obj3d(ra), D.obj3d(rb), what="scores(rotated)")
    if r is not None:
        tol_i = 1e-7 + 1e-13 * 100 / min_dim
        ctx.require(
            close(r["cd"], s["cd"], 1e-6, 1e-9) and close(r["iou2"], s["iou2"], tol_i) and close(r["iou3"], s["iou3"], tol_i),
            nsig(nc, "not-rotation-invariant", s, r),
            lambda: f"{s} vs rotated-about-ego {r}",
        )
        rvals = G.plane_distance(G.rect_corners(*D.ego_box(ra)), G.rect_corners(*D.ego_box(rb)), G.rect_corners(*D.ego_box(rb)))
        if len(vals) == 1 and len(rvals) == 1:
            ctx.require(close(r["pd"], s["pd"], 1e-6, 1e-9), "plane-distance-not-rotation-invariant", lambda: f"{s['pd']} vs {r['pd']}")
    ma, mb = _moved(a, dyaw, dx, dy), _moved(b, dyaw, dx, dy)
    m = _scores(ctx, D.obj3d(ma), D.obj3d(mb), what="scores(moved)")
    if m is not None:
        big = max(abs(dx), abs(dy)) + 100
        tol_i = 1e-7 + 1e-13 * big / min_dim
        ctx.require(
            close(m["cd"], s["cd"], 1e-6 + 1e-12 * big, 1e-9) and close(m["iou2"], s["iou2"], tol_i) and close(m["iou3"], s["iou3"], tol_i),
            nsig(nc, "not-motion-invariant", s, m),
            lambda: f"{s} vs rotated+translated {m} (motion {d['motion']})",
        )
    # plane distance in the map frame (transforms supplied) equals the ego-frame value
    ego = d["ego"]
    tr = D.transforms(ego)
    pm = _scores(ctx, D.obj3d(a, "map", ego), D.obj3d(b, "map", ego), tr=tr, what="scores(map frame)")
    if pm is not None and len(vals) == 1:
        big = max(abs(ego[0]), abs(ego[1])) + 100
        ctx.require(
            close(pm["pd"], s["pd"], 1e-6 + 1e-11 * big, 1e-9),
            "plane-distance-frame-dependent",
            lambda: f"plane distance ego frame {s['pd']} vs map frame {pm['pd']} (ego pose {ego})",
        )
        tol_i = 1e-7 + 1e-13 * big / min_dim
        ctx.require(
            close(pm["cd"], s["cd"], 1e-6 + 1e-11 * big, 1e-9) and close(pm["iou2"], s["iou2"], tol_i),
            nsig(nc, "score-frame-dependent", s, pm),
            lambda: f"{s} vs map frame {pm}",
        )


# ------------------------------------------------------------------------------------------------
# ROIs
# ------------------------------------------------------------------------------------------------


@st.composite
def roi_pairs(draw, tier="quick"):
    # (boxes may stick out of the image at the left / top: negative offsets)
    x, y = draw(st.one_of(st.integers(0, 3800), st.integers(-300, 60))), draw(st.one_of(st.integers(0, 3800), st.integers(-300, 60)))
    w, h = draw(st.integers(1, 400)), draw(st.integers(1, 400))
    kind = draw(st.sampled_from(["indep", "overlap", "overlap", "touch", "nested", "same", "tiny"]))
    if kind == "tiny":
        w, h = draw(st.integers(1, 3)), draw(st.integers(1, 3))
    if kind == "indep":
        b = [draw(st.integers(0, 3800)), draw(st.integers(0, 3800)), draw(st.integers(1, 400)), draw(st.integers(1, 400))]
    elif kind in ("overlap", "tiny"):
        b = [x + draw(st.integers(-w, w)), y + draw(st.integers(-h, h)), draw(st.integers(1, 2 * w)), draw(st.integers(1, 2 * h))]
    elif kind == "touch":
        b = [x + w, y + draw(st.integers(-h, h)) if y > h else y, w, h]
    elif kind == "nested":
        iw, ih = draw(st.integers(1, w)), draw(st.integers(1, h))
        b = [x + draw(st.integers(0, w - iw)), y + draw(st.integers(0, h - ih)), iw, ih]
    else:
        b = [x, y, w, h]
    shift = [draw(st.integers(0, 100000)), draw(st.integers(0, 100000))]
    # ROI objects may also carry a 3D position (traffic lights): pixel scores must not depend on it
    pos = [[draw(GEN.fl(-40, 40)) for _ in range(3)] for _ in range(2)] if draw(st.integers(0, 2)) == 0 else None
    return {"kind": kind, "a": [x, y, w, h], "b": b, "shift": shift, "pos": pos}


def _roi_scores(ctx, ra, rb, what="roi scores", pos=None):
    from perception_eval.evaluation.matching.object_matching import CenterDistanceMatching, IOU2dMatching

    ea = D.obj2d({"roi": ra, "label": "car", "score": 0.5, "pos": pos[0] if pos else None})
    gb = D.obj2d({"roi": rb, "label": "car", "score": 1.0, "pos": pos[1] if pos else None})
    out = None
    with ctx.under_test(what):
        out = {"cd": float(CenterDistanceMatching(ea, gb).value), "iou2": float(IOU2dMatching(ea, gb).value)}
    return out


def _roi_ref(a, b):
    ax, ay, aw, ah = a
    bx, by, bw, bh = b
    iw = max(0, min(ax + aw, bx + bw) - max(ax, bx))
    ih = max(0, min(ay + ah, by + bh) - max(ay, by))
    inter = iw * ih
    iou = Fraction(inter, aw * ah + bw * bh - inter)
    ca = (ax + aw // 2, ay + ah // 2)
    cb = (bx + bw // 2, by + bh // 2)
    return float(iou), math.dist(ca, cb)


@CHECK.given("rois", lambda tier: roi_pairs(tier), quick=800, thorough=160000)
def rois(ctx, d):
    a, b = d["a"], d["b"]
    ctx.cls("kind_" + d["kind"])
    s = _roi_scores(ctx, a, b, pos=d.get("pos"))
    if s is None:
        return
    if d.get("pos"):
        ctx.cls("roi_with_3d_position")
    r_iou, r_cd = _roi_ref(a, b)
    ctx.mark_nontrivial(0 < r_iou < 1)
    ctx.require(close(s["iou2"], r_iou, 1e-9), "roi-iou-value", lambda: f"ROI IoU {s['iou2']} vs exact {r_iou} for {a} {b}")
    ctx.require(close(s["cd"], r_cd, 1e-9, 1e-12), "roi-center-distance", lambda: f"ROI centre distance {s['cd']} vs {r_cd} (centres offset+size//2)")
    ctx.require(-1e-12 <= s["iou2"] <= 1 + 1e-12, "iou-out-of-bounds", lambda: f"{s}")
    t = _roi_scores(ctx, b, a, "roi scores(swapped)")
    if t is not None:
        ctx.require(close(s["iou2"], t["iou2"], 1e-12) and close(s["cd"], t["cd"], 1e-12), "asymmetric-score", lambda: f"{s} vs {t}")
    i = _roi_scores(ctx, a, list(a), "roi scores(identical)")
    if i is not None:
        ctx.require(close(i["iou2"], 1, 1e-12) and i["cd"] == 0, "identical-boxes", lambda: f"{i}")
    if r_iou == 0:
        ctx.require(s["iou2"] <= 1e-12, "disjoint-nonzero", lambda: f"{s}")
    sx, sy = d["shift"]
    m = _roi_scores(ctx, [a[0] + sx, a[1] + sy, a[2], a[3]], [b[0] + sx, b[1] + sy, b[2], b[3]], "roi scores(shifted)")
    if m is not None:
        ctx.require(close(m["iou2"], s["iou2"], 1e-9) and close(m["cd"], s["cd"], 1e-9), "not-motion-invariant", lambda: f"{s} vs shifted {m}")


# ------------------------------------------------------------------------------------------------
# objects re-posed the way the library itself does it (deepcopy + state reassignment: frame interpolation,
# convert_objects_to_global / _to_base_link) must score exactly like fresh objects at the new pose
# (added after a seeded change cached the footprint polygon on the object)
# ------------------------------------------------------------------------------------------------


@CHECK.given("reposed_copies", lambda tier: pairs3d(tier), quick=250, thorough=30000)
def reposed_copies(ctx, d):
    import copy

    from perception_eval.common.dataset import convert_objects_to_base_link, convert_objects_to_global
    from pyquaternion import Quaternion

    a, b = d["a"], d["b"]
    ctx.cls("kind_" + d["kind"])
    ea, gb = D.obj3d(a), D.obj3d(b)
    s0 = _scores(ctx, ea, gb, what="scores(first use)")  # first use: whatever the objects memoise is now set
    if s0 is None:
        return
    min_dim = min(a["size"][0], a["size"][1], b["size"][0], b["size"][1])
    nc = near_coincident(a, b)
    # (1) deepcopy + reassigned state (what interpolate_dynamic_object does), estimate only
    dyaw, dx, dy = d["motion"]
    dx, dy = max(-50.0, min(50.0, dx)), max(-50.0, min(50.0, dy))
    a2 = _moved(a, dyaw, dx, dy)
    ea2 = copy.deepcopy(ea)
    with ctx.under_test("re-pose a deep copy"):
        p2, q2 = D.render_pose(a2, "base_link", None)
        ea2.state.position = tuple(p2)
        ea2.state.orientation = Quaternion(q2[0], q2[1], q2[2], q2[3])
    s1 = _scores(ctx, ea2, gb, what="scores(re-posed copy)")
    if s1 is not None:
        ba2, bb = D.ego_box(a2), D.ego_box(b)
        r_iou2 = G.box_iou_bev(ba2, bb)
        r_iou3 = G.box_iou_3d(ba2, a2["p"][2], a2["size"][2], bb, b["p"][2], b["size"][2])
        r_cd = math.dist(a2["p"], b["p"])
        ctx.mark_nontrivial(0.01 < r_iou2 < 0.99 or abs(r_iou2 - s0["iou2"]) > 0.01)
        tol_i = 1e-7 + 1e-13 * 200 / min_dim
        ctx.require(close(s1["cd"], r_cd, 1e-6, 1e-9), "reposed:center-distance", lambda: f"after re-posing a deep copy: centre distance {s1['cd']} vs {r_cd}")
        ctx.require(close(s1["iou2"], r_iou2, tol_i), nsig(near_coincident(a2, b), "reposed:iou2d-value", s1), lambda: f"after re-posing a deep copy of the estimate to {a2['p'][:2]} / yaw {a2['yaw']}: BEV IoU {s1['iou2']} vs reference {r_iou2} (before the move: {s0['iou2']})")
        ctx.require(close(s1["iou3"], r_iou3, tol_i), nsig(near_coincident(a2, b), "reposed:iou3d-value", s1), lambda: f"after re-posing a deep copy: 3D IoU {s1['iou3']} vs reference {r_iou3}")
        vals = G.plane_distance(G.rect_corners(*ba2), G.rect_corners(*bb), G.rect_corners(*bb))
        ctx.require(any(close(s1["pd"], v, 1e-6, 1e-9) for v in vals), "reposed:plane-distance-value", lambda: f"after re-posing a deep copy: plane distance {s1['pd']} vs {vals}")
        with ctx.under_test("get_footprint(re-posed copy)"):
            fp = [tuple(c[:2]) for c in list(ea2.get_footprint().exterior.coords)[:4]]
            ref = G.rect_corners(*ba2)
            ok = all(math.dist(x, y) <= 1e-6 + 1e-9 * (abs(y[0]) + abs(y[1])) for x, y in zip(fp, ref))
            ctx.require(ok, "reposed:footprint", lambda: f"footprint of the re-posed copy {fp} vs corners at its pose {ref}")
    # (2) the library's own frame conversion, both objects: scores are invariant
    ego = d["ego"]
    with ctx.under_test("convert_objects_to_global"):
        moved = convert_objects_to_global([ea, gb], D.hmatrix(ego))
    if not isinstance(moved, list) or len(moved) != 2:
        return
    tr = D.transforms(ego)
    s2 = _scores(ctx, moved[0], moved[1], tr=tr, what="scores(convert_objects_to_global)")
    big = max(abs(ego[0]), abs(ego[1])) + 100
    if s2 is not None:
        tol_i = 1e-7 + 1e-13 * big / min_dim
        ctx.require(
            close(s2["cd"], s0["cd"], 1e-6 + 1e-11 * big, 1e-9) and close(s2["iou2"], s0["iou2"], tol_i) and close(s2["iou3"], s0["iou3"], tol_i),
            nsig(nc, "converted-to-map:score-differs", s0, s2),
            lambda: f"ego-frame scores {s0} vs the same objects after convert_objects_to_global {s2} (ego pose {ego})",
        )
        vals0 = G.plane_distance(G.rect_corners(*D.ego_box(a)), G.rect_corners(*D.ego_box(b)), G.rect_corners(*D.ego_box(b)))
        if len(vals0) == 1:
            ctx.require(close(s2["pd"], s0["pd"], 1e-6 + 1e-11 * big, 1e-9), "converted-to-map:plane-distance-differs", lambda: f"{s0['pd']} vs {s2['pd']}")
    back = None
    with ctx.under_test("convert_objects_to_base_link"):
        back = convert_objects_to_base_link(moved, D.hmatrix(ego))
    if isinstance(back, list) and len(back) == 2:
        s3 = _scores(ctx, back[0], back[1], what="scores(round trip through map)")
        if s3 is not None:
            tol_i = 1e-7 + 1e-13 * big / min_dim
            ctx.require(
                close(s3["cd"], s0["cd"], 1e-6 + 1e-11 * big, 1e-9) and close(s3["iou2"], s0["iou2"], tol_i),
                nsig(nc, "round-trip-through-map:score-differs", s0, s3),
                lambda: f"{s0} vs after base_link -> map -> base_link {s3}",
            )
