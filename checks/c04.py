"""C04 — AP, APH, mAP equal the interpolated precision-recall area and stay within [0,1]."""
import itertools
from fractions import Fraction

from hypothesis import strategies as st

from vlib import desc as D
from vlib import ref_ap as RA
from vlib.harness import Check

CHECK = Check(
    "C04",
    rule=(
        "(a) every ranking of length <= 5 (quick) / <= 7 (thorough) over the alphabet {T: TP heading-exact, H: TP "
        "heading off by pi/2 (weight 1/2), Q: pi/4 off (3/4), Z: opposite heading (0) [Q,Z thorough only], F: "
        "estimate without GT, G: estimate whose GT fails the threshold, I: ignored (GT label outside the AP's label)} "
        "x every GT count 0..len+1, built from real object results with strictly decreasing confidences, fed "
        "shuffled, flat or nested; (b) random rankings up to 300 results incl. tied confidences; (c) scenes: Map / "
        "MetricsScore from matcher output and manager frames. Non-trivial = ranking with >=1 TP and >=1 non-TP and "
        "GT count >= 2 (a, b); scene with >= 2 labels having results (c); distinct by descriptor hash."
    ),
    assumptions=[
        "heading weights of the symbols are exact by construction (0, pi/4, pi/2, pi); C09 checks the weight itself",
        "AP is 'undefined' (inf) for an empty bucket and excluded from mAP; with num_gt = 0 only AP = 0 for TP-free rankings is asserted",
        "tolerance 1e-9 between float AP and the exact rational reference",
    ],
    design_ref="§6 C04",
)

TOL = 1e-9
# P: TP whose ground truth is pitched by 0.4 rad while the (yaw-only) estimate has the same heading — both at yaw 0, where
# every Euler convention gives heading difference 0: full heading agreement, weight 1
W_AP = {"T": 1, "H": 1, "Q": 1, "Z": 1, "P": 1, "F": 0, "G": 0, "I": 0}
W_APH = {"T": Fraction(1), "H": Fraction(1, 2), "Q": Fraction(3, 4), "Z": Fraction(0), "P": Fraction(1), "F": 0, "G": 0, "I": 0}
YAW_OFF = {"T": 0.0, "H": 1.5707963267948966, "Q": 0.7853981633974483, "Z": 3.141592653589793}
_CACHE = {}


def conf_of(rank, tied=False):
    return 0.5 if tied else 1.0 - (rank + 1) / 1024.0


def result_for(sym, rank, tied=False, label="car"):
    """A real DynamicObjectWithPerceptionResult realising symbol `sym` at confidence rank `rank` (cached)."""
    key = (sym, rank, tied, label)
    if key in _CACHE:
        return _CACHE[key]
    from perception_eval.evaluation.matching.object_matching import MatchingLabelPolicy
    from perception_eval.evaluation.result.object_result import DynamicObjectWithPerceptionResult

    gyaw = 0.3
    g = {"p": [10.0, 5.0, 0.0], "yaw": gyaw, "size": [2.0, 4.0, 1.5], "label": label, "score": 1.0, "uuid": f"g{rank}"}
    e = {"p": [10.2, 5.0, 0.0], "yaw": gyaw + YAW_OFF.get(sym, 0.0), "size": [2.0, 4.0, 1.5], "label": label, "score": conf_of(rank, tied), "uuid": f"e{rank}"}
    if sym == "P":
        g.update(yaw=0.0, pr=[0.4, 0.0])
        e.update(yaw=0.0)
    if sym == "F":
        r = DynamicObjectWithPerceptionResult(D.obj3d(e), None)
    elif sym == "G":
        e["p"] = [13.0, 5.0, 0.0]  # 3 m off: fails the 1 m threshold
        r = DynamicObjectWithPerceptionResult(D.obj3d(e), D.obj3d(g))
    elif sym == "I":
        g["label"] = "pedestrian" if label != "pedestrian" else "car"  # GT label outside the AP's target label: no threshold -> ignored
        r = DynamicObjectWithPerceptionResult(D.obj3d(e), D.obj3d(g), MatchingLabelPolicy.ALLOW_ANY)
    else:
        r = DynamicObjectWithPerceptionResult(D.obj3d(e), D.obj3d(g))
    _CACHE[key] = r
    return r


def _order(n, how):
    idx = list(range(n))
    if how == "rev":
        return idx[::-1]
    if how == "rot":
        k = n // 2
        return idx[k:] + idx[:k]
    if how == "zip":
        return idx[::2] + idx[1::2][::-1]
    return idx


def _ap_pair(ctx, results, num_gt, nested):
    from perception_eval.evaluation.matching.object_matching import MatchingMode
    from perception_eval.evaluation.metrics.detection.ap import Ap
    from perception_eval.evaluation.metrics.detection.tp_metrics import TPMetricsAp, TPMetricsAph

    car = D.label_type("car")
    out = []
    for tpm in (TPMetricsAp(), TPMetricsAph()):
        if nested:
            k = max(1, len(results) // 3)
            arg = [[]] + [results[i : i + k] for i in range(0, len(results), k)]
            inner_before = [list(map(id, x)) for x in arg]
        else:
            arg = list(results)
            inner_before = None
        ap = None
        with ctx.under_test("Ap(...)"):
            ap = Ap(
                tp_metrics=tpm,
                object_results=arg,
                num_ground_truth=num_gt,
                target_labels=[car],
                matching_mode=MatchingMode.CENTERDISTANCE,
                matching_threshold_list=[1.0],
            )
        if ap is None:
            return None
        if nested:
            ctx.require([list(map(id, x)) for x in arg] == inner_before, "ap-reorders-nested-input", "Ap reordered the caller's per-frame lists")
        out.append(ap)
    return out


def _check_ranking(ctx, syms, num_gt, order, nested, tied=False):
    n = len(syms)
    results = [result_for(s, i, tied) for i, s in enumerate(syms)]
    fed = [results[i] for i in _order(n, order)]
    aps = _ap_pair(ctx, fed, num_gt, nested)
    if aps is None:
        return
    ap, aph = aps
    n_tp = sum(W_AP[s] for s in syms)
    ctx.mark_nontrivial(n_tp >= 1 and n_tp < n and num_gt >= 2)
    if "I" in syms:
        ctx.cls("has_ignored")
    if n_tp > num_gt:
        ctx.cls("more_tp_than_gt")
    if n == 0:
        ctx.require(ap.ap == float("inf") and aph.ap == float("inf"), "empty-bucket-not-undefined", f"AP of an empty bucket = {ap.ap}")
        return
    one_to_one = n_tp <= num_gt
    if not tied:
        # exact check against the rational reference
        if num_gt > 0 or n_tp == 0:
            r_ap = RA.interpolated_ap([W_AP[s] for s in syms], num_gt)
            r_aph = RA.interpolated_ap([W_APH[s] for s in syms], num_gt)
            ctx.require(abs(ap.ap - float(r_ap)) <= TOL, "ap-value", lambda: f"AP {ap.ap} vs reference {float(r_ap)} for ranking {''.join(syms)} with {num_gt} GT")
            ctx.require(abs(aph.ap - float(r_aph)) <= TOL, "aph-value", lambda: f"APH {aph.ap} vs reference {float(r_aph)} for ranking {''.join(syms)} with {num_gt} GT")
        # cumulative TP / FP lists follow the reference classification
        cum_tp, cum_fp, cum_w = [], [], []
        t = f = 0
        w = Fraction(0)
        for s in syms:
            t += W_AP[s]
            f += 1 if s in "FG" else 0
            w += W_APH[s]
            cum_tp.append(t)
            cum_fp.append(f)
            cum_w.append(float(w))
        ctx.require(
            len(ap.tp_list) == n and all(abs(a - b) <= TOL for a, b in zip(ap.tp_list, cum_tp)),
            "tp-list",
            lambda: f"tp_list {ap.tp_list} vs cumulative TP counts {cum_tp} for {''.join(syms)}",
        )
        ctx.require(
            len(ap.fp_list) == n and all(abs(a - b) <= TOL for a, b in zip(ap.fp_list, cum_fp)),
            "fp-list",
            lambda: f"fp_list {ap.fp_list} vs cumulative FP counts {cum_fp} for {''.join(syms)}",
        )
        ctx.require(
            all(abs(a - b) <= TOL for a, b in zip(aph.tp_list, cum_w)),
            "aph-tp-list",
            lambda: f"APH tp_list {aph.tp_list} vs cumulative heading weights {cum_w}",
        )
        if one_to_one and num_gt > 0:
            first_non_tp = next((i for i, s in enumerate(syms) if not W_AP[s]), n)
            last_tp = max((i for i, s in enumerate(syms) if W_AP[s]), default=-1)
            if n_tp == num_gt and last_tp < first_non_tp:
                ctx.require(abs(ap.ap - 1.0) <= TOL, "perfect-not-one", lambda: f"AP {ap.ap} for a perfect ranking {''.join(syms)} / {num_gt} GT")
    if tied and (num_gt > 0 or n_tp == 0):
        # equal confidences: any order within the tie group is a ranking "by descending confidence"; AP is monotone in
        # moving a TP ahead of a non-TP, so it must lie between the AP of the worst and of the best tie-consistent order
        for got, W, nm in ((ap.ap, W_AP, "AP"), (aph.ap, W_APH, "APH")):
            ws = [Fraction(W[s_]) for s_ in syms]
            lo = RA.interpolated_ap(sorted(ws), num_gt)
            hi = RA.interpolated_ap(sorted(ws, reverse=True), num_gt)
            ctx.require(float(lo) - TOL <= got <= float(hi) + TOL, "ap-outside-tie-consistent-range", lambda: f"{nm} {got} with all confidences equal: any ordering gives a value in [{float(lo)}, {float(hi)}] ({''.join(syms)}, {num_gt} GT)")
    # bounds (also with tied confidences)
    if one_to_one:
        ctx.require(-TOL <= aph.ap <= ap.ap + TOL and ap.ap <= 1 + TOL, "ap-bounds", lambda: f"need 0 <= APH {aph.ap} <= AP {ap.ap} <= 1 ({''.join(syms)}, {num_gt} GT)")
    if n_tp == 0:
        ctx.require(abs(ap.ap) <= TOL and abs(aph.ap) <= TOL, "no-correct-not-zero", lambda: f"AP {ap.ap} / APH {aph.ap} with no correct estimate")


# ---- (a) exhaustive ---------------------------------------------------------------------------


def gen_rankings(tier):
    alpha = "THFGI" if tier == "quick" else "THQZFGI"
    maxlen = 5 if tier == "quick" else 6
    orders = ["rev", "rot", "zip", "fwd"]
    c = 0
    for n in range(0, maxlen + 1):
        for syms in itertools.product(alpha, repeat=n):
            for g in range(0, n + 2):
                c += 1
                yield {"r": "".join(syms), "gt": g, "order": orders[c % 4], "nested": c % 3 == 0}


@CHECK.enum("rankings_exhaustive", gen_rankings)
def rankings_exhaustive(ctx, d):
    _check_ranking(ctx, list(d["r"]), d["gt"], d["order"], d["nested"])


# ---- (b) random long rankings -----------------------------------------------------------------


@st.composite
def long_rankings(draw, tier="quick"):
    n = draw(st.sampled_from([8, 20, 60, 150, 300] if tier == "thorough" else [8, 20, 60, 120]))
    mix = draw(st.sampled_from(["THQZFGI", "TTTTFG", "TFFFFGI", "THQZ", "FGI", "TTHI", "TPHFP", "PPG"]))
    syms = "".join(draw(st.lists(st.sampled_from(mix), min_size=1, max_size=n)))
    n_tp = sum(W_AP[s] for s in syms)
    g = draw(st.sampled_from([n_tp, n_tp, n_tp + 1, n_tp + draw(st.integers(0, 20)), max(0, n_tp - 1), 0]))
    return {"r": syms, "gt": g, "order": draw(st.sampled_from(["rev", "rot", "zip", "fwd"])), "nested": draw(st.booleans()), "tied": draw(st.integers(0, 4)) == 0}


@CHECK.given("rankings_random", lambda tier: long_rankings(tier), quick=200, thorough=16000)
def rankings_random(ctx, d):
    if d["tied"]:
        ctx.cls("tied_confidences")
    _check_ranking(ctx, list(d["r"]), d["gt"], d["order"], d["nested"], tied=d["tied"])


# ---- (c1) Map over several labels ---------------------------------------------------------------

MAP_LABELS = ["car", "pedestrian", "bicycle", "truck"]


@st.composite
def map_cases(draw, tier="quick"):
    labels = draw(st.lists(st.sampled_from(MAP_LABELS), min_size=1, max_size=4, unique=True))
    buckets = {}
    for lab in labels:
        if draw(st.integers(0, 3)) == 0:
            syms = ""
        else:
            syms = "".join(draw(st.lists(st.sampled_from("THQZPFGI"), min_size=1, max_size=10)))
        n_tp = sum(W_AP[c] for c in syms)
        g = draw(st.sampled_from([n_tp, n_tp + 1, n_tp + 3, 0 if n_tp == 0 else n_tp]))
        buckets[lab] = {"r": syms, "gt": g}
    # per-label thresholds (T-type pairs are 0.2 m apart, G pairs 3 m): a label's results must be judged by ITS threshold;
    # the bucket dicts are handed over in an arbitrary key order (a dict has no label positions)
    thr = [draw(st.sampled_from([1.0, 1.0, 0.5, 2.0, 5.0, 0.1])) for _ in labels]
    order = draw(st.permutations(list(range(len(labels)))))
    return {"labels": labels, "buckets": buckets, "is2d": False, "thr": thr, "dict_order": order}


def _w(sym, thr, table):
    """Weight of a symbol under a centre-distance threshold `thr` (T/H/Q/Z pairs are 0.2 m apart, G pairs 3 m)."""
    if sym == "G":
        return 1 if 3.0 < thr else 0
    if sym in ("T", "H", "Q", "Z", "P"):
        return table[sym] if 0.2 < thr else 0
    return 0


@CHECK.given("maps", lambda tier: map_cases(tier), quick=250, thorough=16000)
def maps(ctx, d):
    from perception_eval.evaluation.matching.object_matching import MatchingMode
    from perception_eval.evaluation.metrics.detection.map import Map

    labels = d["labels"]
    lt = [D.label_type(x) for x in labels]
    thrs = d.get("thr") or [1.0] * len(labels)
    res_lists, nums, r_aps, r_aphs = {}, {}, [], []
    nonempty = 0
    for lab, t, thr in zip(labels, lt, thrs):
        b = d["buckets"][lab]
        syms = list(b["r"])
        res = [result_for(c, i, False, lab) for i, c in enumerate(syms)]
        res_lists[t] = res[::-1]
        nums[t] = b["gt"]
        nonempty += 1 if syms else 0
        n_tp = sum(_w(c, thr, W_AP) for c in syms)
        if b["gt"] < n_tp:
            return  # more TPs than ground truths: not producible by the matcher; nothing asserted
        r_aps.append(RA.interpolated_ap([_w(c, thr, W_AP) for c in syms], b["gt"]))
        r_aphs.append(RA.interpolated_ap([_w(c, thr, W_APH) for c in syms], b["gt"]))
    korder = d.get("dict_order") or list(range(len(labels)))
    res_dict = {lt[k]: res_lists[lt[k]] for k in korder}
    num_dict = {lt[k]: nums[lt[k]] for k in reversed(korder)}
    if list(korder) != sorted(korder):
        ctx.cls("dict_order_permuted")
    if len(set(thrs)) > 1:
        ctx.cls("per_label_thresholds_differ")
    ctx.mark_nontrivial(nonempty >= 2)
    if nonempty < len(labels):
        ctx.cls("has_undefined_label")
    m = None
    with ctx.under_test("Map(...)"):
        m = Map(
            object_results_dict=res_dict,
            num_ground_truth_dict=num_dict,
            target_labels=lt,
            matching_mode=MatchingMode.CENTERDISTANCE,
            matching_threshold_list=list(thrs),
        )
    if m is None:
        return
    for ap, ref, lab in zip(m.aps, r_aps, labels):
        if ref is None:
            ctx.require(ap.ap == float("inf"), "empty-bucket-not-undefined", lambda: f"AP[{lab}] = {ap.ap} for an empty bucket")
        else:
            ctx.require(abs(ap.ap - float(ref)) <= TOL, "map-per-label-ap", lambda: f"AP[{lab}] {ap.ap} vs {float(ref)}")
    r_map, r_maph = RA.mean_defined(r_aps), RA.mean_defined(r_aphs)
    for got, ref, nm in ((m.map, r_map, "mAP"), (m.maph, r_maph, "mAPH")):
        if ref is None:
            ctx.require(got == float("inf"), "map-undefined", lambda: f"{nm} = {got} although no label has a defined AP")
        else:
            ctx.require(abs(got - float(ref)) <= TOL, "map-mean-of-defined", lambda: f"{nm} {got} vs mean of defined APs {float(ref)} ({d['buckets']})")


# ---- (c2) scenes through the real manager: frame-level and scene-level MetricsScore ---------------


def _mgr_cases(tier):
    from vlib import mgrlib as MG

    def strip_ids(t):
        d, how = t
        # detection does not need instance ids: objects without uuid (detections usually have none, hand-built ground
        # truths may have none) or with ids shared between annotations; uuid filters are switched off in that case
        if d["task"] == "detection" and how != "keep":
            d["mgr"]["uuids"] = None
            for f in d["frames"]:
                f["crit"]["uuids"] = None
                for i, o in enumerate(f["gt"]):
                    o["uuid"] = None if how == "none" else f"shared{i % 2}"
                for o in f["est"]:
                    o["uuid"] = None
            d["uuid_mode"] = how
        return d

    return st.tuples(MG.manager_cases(tier, tasks=("detection", "tracking"), max_frames=3), st.sampled_from(["keep", "keep", "none", "shared"])).map(strip_ids)


@CHECK.given("manager_scenes", _mgr_cases, quick=90, thorough=4000)
def manager_scenes(ctx, d):
    from vlib import mgrlib as MG
    from vlib import scorelib as SL

    run = MG.run_case(ctx, d)
    if run is None:
        return
    if d.get("uuid_mode"):
        ctx.cls("objects_without_unique_uuid")
    targets, pol = d["targets"], d["policy"]
    labels_with_results = set()
    for i, res in enumerate(run["results"]):
        SL.check_maps(ctx, res.metrics_score.maps, [res], targets, pol, "frame", d)
        for r in res.object_results:
            labels_with_results.add(r.estimated_object.semantic_label.label.value)
    scene = None
    with ctx.under_test("get_scene_result"):
        scene = run["mgr"].get_scene_result()
    if scene is not None:
        SL.check_maps(ctx, scene.maps, run["mgr"].frame_results, targets, pol, "scene", d)
    ctx.cls("frame_" + d["frame"])
    ctx.cls("policy_" + d["policy"])
    ctx.mark_nontrivial(len(labels_with_results & set(targets)) >= 2)


# ---- (c3) the 2D pipeline (ROI objects; AP only, no APH) ---------------------------------------------


def _mgr_cases2d(tier):
    from vlib import mgrlib as MG

    return MG.manager_cases2d(tier, tasks=("detection2d", "tracking2d"))


@CHECK.given("manager_scenes2d", _mgr_cases2d, quick=80, thorough=3000)
def manager_scenes2d(ctx, d):
    from vlib import mgrlib as MG
    from vlib import scorelib as SL

    run = MG.run_case2d(ctx, d)
    if run is None:
        return
    targets, pol = d["targets"], d["policy"]
    labels_with_results = set()
    for res in run["results"]:
        SL.check_maps(ctx, res.metrics_score.maps, [res], targets, pol, "frame2d", d)
        for m in res.metrics_score.maps:
            ctx.require(not m.aphs, "aph-for-2d", "a 2D Map carries APH scores")
        for r in res.object_results:
            labels_with_results.add(r.estimated_object.semantic_label.label.value)
    scene = None
    with ctx.under_test("get_scene_result"):
        scene = run["mgr"].get_scene_result()
    if scene is not None:
        SL.check_maps(ctx, scene.maps, run["mgr"].frame_results, targets, pol, "scene2d", d)
    ctx.cls("task_" + d["task"])
    ctx.mark_nontrivial(len(labels_with_results & set(targets)) >= 2)
