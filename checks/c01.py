"""C01 — matching is one-to-one and accounts for every estimate."""
from vlib import desc as D
from vlib import matchlib as M
from vlib.harness import Check

CHECK = Check(
    "C01",
    rule=(
        "scenes from gen.scenes3d / scenes2d (GTs on distinct grid cells, estimates built relative to GTs: near, "
        "around-threshold, contested, mislabelled, clutter; 3D lists may mix base_link and map objects) x label "
        "policy x matching mode x radii (None or per-label) x task (normal / FP validation); plus manager frames. "
        "Non-trivial = >=2 estimates and >=2 GTs and (a GT with >=2 same-frame estimates within 2 m / 100 px, or "
        "mixed frames, or a radius that rejects some same-frame pair, or FP validation); distinct by descriptor hash."
    ),
    assumptions=[
        "P1: ground truths of a frame are pairwise distinct (generated on distinct grid cells)",
        "P2: matchable radii only with distance modes (IoU modes assert thresholds in [0,1])",
        "radius decisions within 1e-6 of the radius are not asserted (margin rule)",
    ],
    design_ref="§6 C01",
)

MARGIN = 1e-6


def _check(ctx, d):
    est, gt, tr = M.build(d)
    snap = D.snapshot3d if d["dim"] == 3 else D.snapshot2d
    before_e, before_g = [snap(o) for o in est], [snap(o) for o in gt]
    ids_e, ids_g = [id(o) for o in est], [id(o) for o in gt]
    res = M.call_matcher(ctx, d, est, gt, tr)
    if res is None:
        return
    fpv = d["task"].startswith("fp_validation")

    # ---- classification of the case (non-trivial rule) --------------------------------------
    frames_e = [M.obj_frame(d, o) for o in d["est"]]
    frames_g = [M.obj_frame(d, o) for o in d["gt"]]
    near = 2.0 if d["dim"] == 3 else 100.0
    contested = False
    radius_cuts = False
    for j, g in enumerate(d["gt"]):
        c = 0
        for i, e in enumerate(d["est"]):
            if frames_e[i] != frames_g[j]:
                continue
            dist = M.ref_center_distance(d, e, g)
            if dist < near:
                c += 1
            r = M.radius_for(d, g)
            if r is not None and d["mode"] == "CENTERDISTANCE" and dist > r + MARGIN:
                radius_cuts = True
        contested = contested or c >= 2
    mixed = len(set(frames_e + frames_g)) > 1
    if contested:
        ctx.cls("contested_gt")
    if mixed:
        ctx.cls("mixed_frames")
    if radius_cuts:
        ctx.cls("radius_cuts_pair")
    if fpv:
        ctx.cls("fp_validation")
    if not d["gt"]:
        ctx.cls("empty_gt")
    if not d["est"]:
        ctx.cls("empty_est")
    ctx.mark_nontrivial(len(d["est"]) >= 2 and len(d["gt"]) >= 2 and (contested or mixed or radius_cuts or fpv))

    # ---- validity of the returned list ------------------------------------------------------
    ctx.require(isinstance(res, list), "result-not-list", f"{type(res)}")
    used_e, used_g = set(), set()
    for r in res:
        i = M.index_of(r.estimated_object, est)
        ctx.require(i is not None, "estimate-not-from-input", "a result carries an estimate that is not an element of the input list")
        if i is None:
            continue
        ctx.require(i not in used_e, "estimate-used-twice", f"estimate #{i} appears in two results")
        used_e.add(i)
        g = r.ground_truth_object
        if g is None:
            ctx.require(not fpv, "fpv-unpaired-kept", f"FP validation returned the unpaired estimate #{i}")
            continue
        j = M.index_of(g, gt)
        ctx.require(j is not None, "gt-not-from-input", "a result carries a ground truth that is not an element of the input list")
        if j is None:
            continue
        ctx.require(j not in used_g, "gt-used-twice", f"ground truth #{j} is paired with two estimates")
        used_g.add(j)
        ctx.require(
            frames_e[i] == frames_g[j] and r.estimated_object.frame_id == g.frame_id,
            "pair-across-frames",
            f"estimate #{i} ({frames_e[i]}) paired with GT #{j} ({frames_g[j]})",
        )
        rad = M.radius_for(d, d["gt"][j])
        if rad is not None and frames_e[i] == frames_g[j]:
            if d["mode"] == "CENTERDISTANCE" or d["dim"] == 2:
                vals = [M.ref_center_distance(d, d["est"][i], d["gt"][j])]
            elif d["mode"] == "PLANEDISTANCE" and not (d["est"][i].get("pr") or d["gt"][j].get("pr")):
                vals = M.ref_plane_distance(d["est"][i], d["gt"][j])
            else:
                vals = []
            if vals:
                if any(abs(v - rad) <= MARGIN for v in vals):
                    ctx.boundary()
                else:
                    ctx.require(
                        any(v < rad for v in vals),
                        "pair-outside-radius",
                        f"estimate #{i} paired with GT #{j} at distance {vals} >= radius {rad} ({d['mode']})",
                    )
    if not fpv:
        ctx.require(
            used_e == set(range(len(est))) and len(res) == len(est),
            "estimate-lost",
            f"{len(est)} estimates in, {len(res)} results out (estimates present: {sorted(used_e)})",
        )
    if not d["gt"]:
        ctx.require(
            all(r.ground_truth_object is None for r in res) and (not fpv or res == []),
            "empty-gt",
            "with no ground truth every result must be GT-less (and [] for FP validation)",
        )
    if not d["est"]:
        ctx.require(res == [], "empty-est", "no estimates must give no results")

    # ---- caller's lists untouched -----------------------------------------------------------
    ctx.require(
        [id(o) for o in est] == ids_e and [id(o) for o in gt] == ids_g,
        "input-list-mutated",
        "the caller's estimate / ground-truth list changed length, order or elements",
    )
    ctx.require(
        [snap(o) for o in est] == before_e and [snap(o) for o in gt] == before_g,
        "input-object-mutated",
        "an input object's pose / label / score changed",
    )


@CHECK.given("scenes3d", lambda tier: M.match_cases3d(tier), quick=250, thorough=12000)
def scenes3d(ctx, d):
    _check(ctx, d)


@CHECK.given("scenes3d_contested", lambda tier: M.match_cases3d(tier, contest=True), quick=120, thorough=6000)
def scenes3d_contested(ctx, d):
    _check(ctx, d)


@CHECK.given("scenes2d", lambda tier: M.match_cases2d(tier), quick=250, thorough=12000)
def scenes2d(ctx, d):
    _check(ctx, d)


# ---- through the manager: add_frame_result(...).object_results ------------------------------------


def _manager_cases(tier):
    from vlib import mgrlib as MG

    return MG.manager_cases(tier, max_frames=2)


@CHECK.given("manager_frames", _manager_cases, quick=90, thorough=4000)
def manager_frames(ctx, d):
    """The same validity predicate on what a caller of the manager sees (after the manager's and the critical filter)."""
    from vlib import mgrlib as MG
    from vlib import ref_geom as G  # noqa: F401

    run = MG.run_case(ctx, d)
    if run is None:
        return
    fpv = d["task"] == "fp_validation"
    nt = False
    for i, f in enumerate(d["frames"]):
        res = run["results"][i]
        ests, gts = run["est_lists"][i], run["gt_frames"][i].objects
        used_e, used_g = set(), set()
        for r in res.object_results:
            a = MG.index_of(r.estimated_object, ests)
            ctx.require(a is not None and a not in used_e, "manager:estimate-not-from-input-or-twice", f"frame {i}: estimate index {a}")
            used_e.add(a)
            g = r.ground_truth_object
            if g is None:
                ctx.require(not fpv, "manager:fpv-unpaired-kept", f"frame {i}: FP validation kept the unpaired estimate #{a}")
                continue
            b = MG.index_of(g, gts)
            ctx.require(b is not None and b not in used_g, "manager:gt-not-from-input-or-twice", f"frame {i}: GT index {b} (estimate #{a})")
            used_g.add(b)
            ctx.require(r.estimated_object.frame_id == g.frame_id, "manager:pair-across-frames", f"frame {i}")
            if a is None or b is None:
                continue
            rad = d["mgr"].get("radii")
            gl = f["gt"][b]["label"]
            if rad is not None and gl in d["targets"]:
                import math

                dist = math.dist(f["est"][a]["p"], f["gt"][b]["p"])
                lim = rad[d["targets"].index(gl)]
                if abs(dist - lim) <= MARGIN:
                    ctx.boundary()
                else:
                    nt = True
                    ctx.require(dist < lim, "manager:pair-outside-radius", lambda: f"frame {i} ({d['frame']}): estimate #{a} paired with GT #{b} at {dist} >= max_matchable_radii {lim}")
        if fpv:
            nt = True
    ctx.cls("task_" + d["task"])
    ctx.cls("frame_" + d["frame"])
    ctx.mark_nontrivial(nt)
