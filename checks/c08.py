"""C08 — loosening a matching threshold never loses a TP and never lowers AP."""
from fractions import Fraction

from hypothesis import strategies as st

from vlib import desc as D
from vlib import gen as GEN
from vlib import matchlib as M
from vlib import mgrlib as MG
from vlib.harness import Check

CHECK = Check(
    "C08",
    rule=(
        "object-result sets produced by the real matcher on generated 3D / 2D scenes with ordinary ground truths only, "
        "evaluated under ordered threshold pairs per matching mode and label (distance t <= t', IoU t >= t', incl. "
        "equal and values taken from the scores themselves +-delta) at frame level (get_positive_objects, "
        "get_negative_objects, Map) and at scene level (one manager config listing two ordered threshold rows per "
        "mode; frame scores and get_scene_result). Non-trivial = a threshold pair between which at least one result "
        "changes status; distinct by descriptor hash."
    ),
    assumptions=[
        "ground truths are ordinary (the statement excludes false_positive-labelled GT, whose TP test is inverted)",
        "AP comparisons allow 1e-12 of floating-point noise",
    ],
    design_ref="§6 C08",
)

TOL = 1e-12
DIST = ("CENTERDISTANCE", "PLANEDISTANCE")


@st.composite
def cases(draw, tier="quick", dim=3):
    if dim == 3:
        sc = draw(GEN.scenes3d(max_gt=10 if tier == "thorough" else 7, max_est=12 if tier == "thorough" else 8, allow_fp_gt=False, allow_map=True, min_gt=1, min_est=1, spacing=draw(st.sampled_from([4.0, 8.0]))))
        mode = draw(GEN.modes3d())
    else:
        sc = draw(GEN.scenes2d(max_gt=8, max_est=8, allow_fp_gt=False, fam=draw(st.sampled_from(["autoware", "tl"]))))
        mode = draw(GEN.modes2d())
    n = len(sc["targets"])
    if mode in DIST:
        # 0 is a legitimate (if extreme) distance threshold: nothing can beat it
        # ... and "inf" (written as a string in the JSON descriptor) the loosest one: everything paired beats it
        pool = [0.0, 0.2, 0.5, 1.0, 2.0, 4.0, 50.0, "inf"] if dim == 3 else [0.0, 2.0, 10.0, 50.0, 200.0, 1000.0, "inf"]
    else:
        pool = [0.0, 0.1, 0.3, 0.5, 0.7, 0.9, 1.0]
    rows = []
    for _ in range(3):
        rows.append(draw(GEN.per_label(n, st.sampled_from(pool))))
    sc.update({"dim": dim, "policy": draw(GEN.policies()), "mode": mode, "radii": None, "task": "detection" if dim == 3 else "detection2d", "rows": rows, "from_scores": draw(st.booleans()), "delta": draw(st.sampled_from([0.0, 1e-9, 1e-3, 0.05]))})
    M._uuid_variants(draw, sc)  # objects without instance ids / ids shared between annotations: TP status is per result
    return sc


def _loosen_order(mode, a, b):
    """(tight, loose) per label."""
    if mode in DIST:
        return [min(x, y) for x, y in zip(a, b)], [max(x, y) for x, y in zip(a, b)]
    return [max(x, y) for x, y in zip(a, b)], [min(x, y) for x, y in zip(a, b)]


def _evaluate(ctx, d, results, gts, thr):
    from perception_eval.evaluation.matching.objects_filter import divide_objects, divide_objects_to_num, get_negative_objects, get_positive_objects
    from perception_eval.evaluation.metrics.detection.map import Map

    targets = D.labels(d["targets"], d.get("fam", "autoware"))
    mode = D.mode(d["mode"])
    out = None
    with ctx.under_test("get_positive_objects/get_negative_objects/Map"):
        tp, fp = get_positive_objects(results, targets, mode, thr)
        tn, fn = get_negative_objects(gts, results, targets, mode, thr)
        m = Map(
            object_results_dict=divide_objects(results, targets),
            num_ground_truth_dict=divide_objects_to_num(gts, targets),
            target_labels=targets,
            matching_mode=mode,
            matching_threshold_list=thr,
            is_detection_2d=d["dim"] == 2,
        )
        out = {"tp": tp, "fn": fn, "ap": [a.ap for a in m.aps], "aph": [a.ap for a in m.aphs], "map": m.map, "maph": m.maph}
    return out


def _mono(ctx, lo, hi, what, sig):
    """hi (looser) must not be below lo (tighter); inf = undefined must stay undefined."""
    inf = float("inf")
    if lo == inf or hi == inf:
        ctx.require(lo == hi, sig + "-definedness", lambda: f"{what}: {lo} -> {hi}")
        return
    ctx.require(hi >= lo - TOL, sig, lambda: f"{what} dropped from {lo} to {hi} when the threshold was loosened")


def _body(ctx, d):
    est, gt, tr = M.build(d)
    results = M.call_matcher(ctx, d, est, gt, tr)
    if results is None:
        return
    # only target-labelled ordinary GTs count for FN (the manager filters the rest before matching)
    rows = [[float(x) for x in r] for r in d["rows"]]  # float("inf") for the "inf" entries
    if d["from_scores"]:
        # thresholds straddling actual scores exercise status changes precisely
        vals = sorted({float(r.get_matching(D.mode(d["mode"])).value) for r in results if r.ground_truth_object is not None})
        if vals:
            v = vals[len(vals) // 2]
            lo, hi = v - d["delta"], v + d["delta"]
            if d["mode"] not in DIST:
                lo, hi = max(0.0, min(1.0, lo)), max(0.0, min(1.0, hi))
            else:
                lo = max(0.0, lo)
            rows[0] = [lo] * len(rows[0])
            rows[1] = [hi] * len(rows[1])
    changed = False
    for a, b in ((rows[0], rows[1]), (rows[1], rows[2]), (rows[0], rows[0])):
        tight, loose = _loosen_order(d["mode"], a, b)
        rt, rl = _evaluate(ctx, d, results, gt, tight), _evaluate(ctx, d, results, gt, loose)
        if rt is None or rl is None:
            return
        lost = [r for r in rt["tp"] if not any(r is x for x in rl["tp"])]
        ctx.require(not lost, "tp-lost-when-loosened", lambda: f"{len(lost)} TP(s) at thresholds {tight} are not TP at the looser {loose} ({d['mode']})")
        ctx.require(len(rl["tp"]) >= len(rt["tp"]), "tp-count-decreases", lambda: f"TP {len(rt['tp'])} -> {len(rl['tp'])}")
        ctx.require(len(rl["fn"]) <= len(rt["fn"]), "fn-count-increases", lambda: f"FN {len(rt['fn'])} -> {len(rl['fn'])} when loosening {tight} -> {loose} ({d['mode']})")
        for i, lab in enumerate(d["targets"]):
            _mono(ctx, rt["ap"][i], rl["ap"][i], f"AP[{lab}] ({d['mode']} {tight[i]} -> {loose[i]})", "ap-decreases")
            if d["dim"] == 3:
                _mono(ctx, rt["aph"][i], rl["aph"][i], f"APH[{lab}] ({d['mode']} {tight[i]} -> {loose[i]})", "aph-decreases")
        _mono(ctx, rt["map"], rl["map"], f"mAP ({d['mode']})", "map-decreases")
        if d["dim"] == 3:
            _mono(ctx, rt["maph"], rl["maph"], f"mAPH ({d['mode']})", "maph-decreases")
        if len(rl["tp"]) != len(rt["tp"]):
            changed = True
    ctx.mark_nontrivial(changed)
    ctx.cls("mode_" + d["mode"])
    if changed:
        ctx.cls("status_changes")
    # the same result objects judged under ANOTHER matching mode with the same threshold values must give what
    # freshly built results give (TP / FN membership is a function of result, mode and threshold only)
    thr = [float(x) for x in rows[0]]
    all_modes = ["CENTERDISTANCE", "PLANEDISTANCE", "IOU2D", "IOU3D"] if d["dim"] == 3 else ["CENTERDISTANCE", "IOU2D"]
    others = [m for m in all_modes if m != d["mode"] and (m in DIST or all(0.0 <= x <= 1.0 for x in thr))]
    if others:
        m2 = others[len(results) % len(others)]
        d2 = dict(d, mode=m2)
        reused = _evaluate(ctx, d2, results, gt, thr)
        est_f, gt_f, tr_f = M.build(d)
        fresh_results = M.call_matcher(ctx, d, est_f, gt_f, tr_f)
        if reused is not None and fresh_results is not None:
            fresh = _evaluate(ctx, d2, fresh_results, gt_f, thr)
            if fresh is not None:
                key_r = sorted(M.index_of(r.estimated_object, est) for r in reused["tp"])
                key_f = sorted(M.index_of(r.estimated_object, est_f) for r in fresh["tp"])
                ctx.cls("cross_mode_reuse")
                ctx.require(
                    key_r == key_f and len(reused["fn"]) == len(fresh["fn"]),
                    "status-depends-on-earlier-queries",
                    lambda: f"after judging the results under {d['mode']}, {m2} at {thr} gives TP estimates {key_r} / {len(reused['fn'])} FN; freshly built results give {key_f} / {len(fresh['fn'])} FN",
                )
                for x, y in zip(reused["ap"], fresh["ap"]):
                    ctx.require((x == y) or abs(x - y) <= 1e-9, "ap-depends-on-earlier-queries", lambda: f"{m2} AP {reused['ap']} vs fresh {fresh['ap']}")


@CHECK.given("frame3d", lambda tier: cases(tier, 3), quick=260, thorough=12000)
def frame3d(ctx, d):
    _body(ctx, d)


@CHECK.given("frame2d", lambda tier: cases(tier, 2), quick=200, thorough=8000)
def frame2d(ctx, d):
    _body(ctx, d)


# ---- scene level through the manager: two ordered threshold rows per mode ----------------------


@st.composite
def scene_cases(draw, tier="quick"):
    d = draw(MG.manager_cases(tier, tasks=("detection", "tracking"), max_frames=3))
    n = len(d["targets"])
    for f in d["frames"]:
        for g in f["gt"]:
            if g["label"] == "false_positive":
                g["label"] = d["targets"][0]
    pools = {"center": [0.0, 0.3, 0.5, 1.0, 2.0, 4.0], "plane": [0.0, 0.5, 1.0, 2.0, 3.0], "iou2d": [0.1, 0.3, 0.5, 0.7], "iou3d": [0.1, 0.2, 0.5]}
    # the order in which a configuration lists its threshold rows is free: the looser row may come first
    d["loose_first"] = draw(st.booleans())
    for k, pool in pools.items():
        a = draw(GEN.per_label(n, st.sampled_from(pool)))
        b = draw(GEN.per_label(n, st.sampled_from(pool)))
        mode = "IOU2D" if k.startswith("iou") else "CENTERDISTANCE"
        tight, loose = _loosen_order(mode, a, b)
        d["thr"][k] = [loose, tight] if d["loose_first"] else [tight, loose]
    return d


@CHECK.given("scene_manager", lambda tier: scene_cases(tier), quick=70, thorough=3000)
def scene_manager(ctx, d):
    run = MG.run_case(ctx, d)
    if run is None:
        return
    scores = [MG.summarize_score(r.metrics_score) for r in run["results"]]
    with ctx.under_test("get_scene_result"):
        scores.append(MG.summarize_score(run["mgr"].get_scene_result()))
    changed = False
    for lvl, s in enumerate(scores):
        where = "scene" if lvl == len(scores) - 1 else f"frame{lvl}"
        by_mode = {}
        for m in s["maps"]:
            by_mode.setdefault(m["mode"], []).append(m)
        for mode, ms in by_mode.items():
            if len(ms) != 2:
                continue
            t, l = (ms[1], ms[0]) if d.get("loose_first") else ms  # config order
            for i, lab in enumerate(d["targets"]):
                _mono(ctx, t["ap"][i], l["ap"][i], f"{where} AP[{lab}] ({mode} {t['thr'][i]} -> {l['thr'][i]})", "ap-decreases")
                _mono(ctx, t["aph"][i], l["aph"][i], f"{where} APH[{lab}] ({mode})", "aph-decreases")
                if t["ap"][i] != l["ap"][i]:
                    changed = True
            _mono(ctx, t["map"], l["map"], f"{where} mAP ({mode})", "map-decreases")
            _mono(ctx, t["maph"], l["maph"], f"{where} mAPH ({mode})", "maph-decreases")
    ctx.mark_nontrivial(changed)
    ctx.cls("task_" + d["task"])


# ---- exhaustive rankings: results at fixed distances, thresholds 0 <= 0.5 <= 1.0 <= 5.0 ---------------

_RC = {}
SYM = {"A": (0.2, 0.0), "B": (0.8, 0.0), "C": (3.0, 0.0), "H": (0.8, 1.5707963267948966), "Q": (0.8, 2.356194490192345), "F": None}  # Q: heading 135 deg off (weight 1/4)


# pose "map": the same results expressed in the map frame by an ego heading that puts the ground truth's map yaw just below
# +pi, so that the estimates' yaws lie on the other side of the -pi / +pi cut (heading similarity is a property of the pair,
# not of the frame the pair is written in)
MAP_EGO = [120.0, -45.0, 2.8]


def _sym_result(sym, rank, pose="bl"):
    key = (sym, rank, pose)
    if key not in _RC:
        from perception_eval.evaluation.result.object_result import DynamicObjectWithPerceptionResult

        g = {"p": [10.0, 5.0, 0.0], "yaw": 0.3, "size": [2.0, 4.0, 1.5], "label": "car", "score": 1.0}
        spec = SYM[sym]
        e = {"p": [10.0 + (spec[0] if spec else 0.0), 5.0, 0.0], "yaw": 0.3 + (spec[1] if spec else 0.0), "size": [2.0, 4.0, 1.5], "label": "car", "score": 1.0 - (rank + 1) / 64.0}
        if pose == "map":
            _RC[key] = DynamicObjectWithPerceptionResult(D.obj3d(e, "map", MAP_EGO), D.obj3d(g, "map", MAP_EGO) if spec else None, transforms=D.transforms(MAP_EGO))
        else:
            _RC[key] = DynamicObjectWithPerceptionResult(D.obj3d(e), D.obj3d(g) if spec else None)
    return _RC[key]


def gen_rankings(tier):
    import itertools

    maxlen = 5 if tier == "quick" else 7
    for n in range(1, maxlen + 1):
        for syms in itertools.product("ABCHQF", repeat=n):
            with_gt = sum(1 for s in syms if s != "F")
            for extra in (0, 2):
                if with_gt + extra > 0:
                    yield {"r": "".join(syms), "gt": with_gt + extra}
                    if n < maxlen:
                        yield {"r": "".join(syms), "gt": with_gt + extra, "pose": "map"}


@CHECK.enum("rankings_exhaustive", gen_rankings)
def rankings_exhaustive(ctx, d):
    from perception_eval.evaluation.matching.object_matching import MatchingMode
    from perception_eval.evaluation.metrics.detection.ap import Ap
    from perception_eval.evaluation.metrics.detection.tp_metrics import TPMetricsAp, TPMetricsAph

    results = [_sym_result(s, i, d.get("pose", "bl")) for i, s in enumerate(d["r"])]
    ctx.cls("pose:" + d.get("pose", "bl"))
    car = D.label_type("car")
    prev = None
    vals = []
    for thr in (0.0, 0.5, 1.0, 5.0):
        cur = []
        for tpm in (TPMetricsAp(), TPMetricsAph()):
            with ctx.under_test("Ap(...)"):
                cur.append(Ap(tpm, [list(results)], d["gt"], [car], MatchingMode.CENTERDISTANCE, [thr]).ap)
        if len(cur) < 2:
            return
        if prev is not None:
            _mono(ctx, prev[0], cur[0], f"AP of ranking {d['r']} / {d['gt']} GT", "ap-decreases")
            _mono(ctx, prev[1], cur[1], f"APH of ranking {d['r']} / {d['gt']} GT", "aph-decreases")
        prev = cur
        vals.append(cur[0])
    ctx.mark_nontrivial(len(set(vals)) > 1)


# ---- exhaustive label mixes: mAP / mAPH over three labels whose buckets change status at different thresholds -----

MAP_LABELS3 = ["car", "pedestrian", "bicycle"]
BUCKETS = ["", "A", "B", "C", "F", "AB", "BC", "CA", "FB", "HC"]


def _sym_result_l(sym, rank, label):
    key = (sym, rank, label)
    if key not in _RC:
        from perception_eval.evaluation.result.object_result import DynamicObjectWithPerceptionResult

        g = {"p": [10.0, 5.0, 0.0], "yaw": 0.3, "size": [2.0, 4.0, 1.5], "label": label, "score": 1.0}
        spec = SYM[sym]
        e = {"p": [10.0 + (spec[0] if spec else 0.0), 5.0, 0.0], "yaw": 0.3 + (spec[1] if spec else 0.0), "size": [2.0, 4.0, 1.5], "label": label, "score": 1.0 - (rank + 1) / 64.0}
        _RC[key] = DynamicObjectWithPerceptionResult(D.obj3d(e), D.obj3d(g) if spec else None)
    return _RC[key]


def gen_label_mixes(tier):
    import itertools

    pool = BUCKETS if tier == "thorough" else BUCKETS[:8]
    for combo in itertools.product(pool, repeat=3):
        if sum(1 for c in combo if c) >= 2:
            yield {"buckets": list(combo), "extra": (len(combo[0]) + len(combo[2])) % 2}


@CHECK.enum("label_mixes", gen_label_mixes)
def label_mixes(ctx, d):
    """mAP / mAPH of one fixed result set over three labels under uniformly and per-label loosened thresholds."""
    from perception_eval.evaluation.matching.object_matching import MatchingMode
    from perception_eval.evaluation.metrics.detection.map import Map

    lt = D.labels(MAP_LABELS3)
    res = {t: [_sym_result_l(s, i, lab) for i, s in enumerate(b)] for t, lab, b in zip(lt, MAP_LABELS3, d["buckets"])}
    num = {t: sum(1 for s in b if s != "F") + d["extra"] for t, b in zip(lt, d["buckets"])}

    def ev(thr):
        out = None
        with ctx.under_test("Map(...)"):
            m = Map(object_results_dict={t: list(v) for t, v in res.items()}, num_ground_truth_dict=dict(num), target_labels=lt, matching_mode=MatchingMode.CENTERDISTANCE, matching_threshold_list=list(thr))
            out = {"ap": [a.ap for a in m.aps], "aph": [a.ap for a in m.aphs], "map": m.map, "maph": m.maph}
        return out

    sweeps = [[(t, t, t) for t in (0.0, 0.5, 1.0, 5.0)]]
    for i in range(3):
        sweeps.append([tuple(t if k == i else 0.5 for k in range(3)) for t in (0.0, 0.5, 1.0, 5.0)])
    changed = False
    for sw in sweeps:
        prev = None
        for thr in sw:
            cur = ev(thr)
            if cur is None:
                return
            if prev is not None:
                pt, pv = prev
                for i, lab in enumerate(MAP_LABELS3):
                    _mono(ctx, pv["ap"][i], cur["ap"][i], f"AP[{lab}] of buckets {d['buckets']} ({pt} -> {thr})", "ap-decreases")
                    _mono(ctx, pv["aph"][i], cur["aph"][i], f"APH[{lab}] of buckets {d['buckets']} ({pt} -> {thr})", "aph-decreases")
                _mono(ctx, pv["map"], cur["map"], f"mAP of buckets {d['buckets']} (thresholds {pt} -> {thr}; per-label AP {pv['ap']} -> {cur['ap']})", "map-decreases")
                _mono(ctx, pv["maph"], cur["maph"], f"mAPH of buckets {d['buckets']} (thresholds {pt} -> {thr}; per-label APH {pv['aph']} -> {cur['aph']})", "maph-decreases")
                if pv["map"] != cur["map"]:
                    changed = True
            prev = (thr, cur)
    ctx.mark_nontrivial(changed)
