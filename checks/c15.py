"""C15 — configurations are validated; thresholds are normalised to one value per target label.

Sub-checks
  thresholds        Hypothesis: threshold specifications (scalars, flat / nested lists, lengths 0..n+2, singletons,
                    str / None / list elements, depth <= 3) x n = 1..6 x nest, against vlib/ref_thresh.py
  thresholds_enum   exhaustive: every list of length 0..3 over 12 elements (+ scalars) x n = 1..3 x nest
  config            Hypothesis: a valid-by-construction configuration per task (accepted + invariants), then one
                    targeted mutation (must be rejected) or one equivalent re-spelling (must stay accepted)
  config_enum       exhaustive: canonical configuration per task x range kind x every targeted mutation
  frame_configs     CriticalObjectFilterConfig / PerceptionPassFailConfig list-length checks
  metrics_params    MetricsScoreConfig(**params) rejects parameters that are not metric parameters

Oracles: ref_thresh (accept/reject + normal forms) for every threshold; for configurations the statement of the
property and docs/en/perception/design.md ("Error cases in setting parameters").  "Rejected" = any exception.
"""
import copy
import itertools
import os

from hypothesis import strategies as st

from vlib import ref_thresh as R
from vlib.harness import Check, proc_tmp

CHECK = Check(
    "C15",
    rule=(
        "thresholds: generated specs (scalar / flat / nested / depth 3, lengths 0..n+2, str/None/list elements) for "
        "n=1..6 and both nest values, plus the complete set of lists of length<=3 over 12 elements for n=1..3; "
        "non-trivial = nesting depth >= 2, or a singleton/scalar broadcast with n >= 2, or a list mixing numbers with "
        "non-numbers/lists. configs: valid-by-construction config for each of the 7 perception tasks and sensing, "
        "plus one mutation; non-trivial = the mutation is not the identity. frame configs: non-trivial = at least "
        "one list of wrong length / wrong type or a singleton. Distinct by descriptor hash."
    ),
    assumptions=[
        "spec domain = numbers (int/float, finite) and lists; tuples, bools, NaN/inf are never generated",
        "'rejected' means any exception; 'accepted' means a value/config object is returned",
        "flat list of exactly n numbers with nest=True: both [[x1..xn]] (pinned by the unit test) and "
        "[[x1]*n,..,[xn]*n] are allowed normal forms",
        "evaluation task 'prediction' is excluded (listed as supported, raises NotImplementedError)",
        "None or [] for a metric threshold means 'not given'; falsy scalars (0, 0.0) are not generated there",
        "min_distance only as the documented scalar",
        "range-kind rules are asserted for 3D tasks only (docs: 'Only 3D'); metric-threshold mutations only for "
        "tasks that have a metrics config (not fp_validation / fp_validation2d)",
        "unknown keys: asserted for PerceptionEvaluationConfig (documented error case 4) — known finding D8; "
        "SensingEvaluationConfig documents no such error and is only classified",
        "CriticalObjectFilterConfig/PassFailConfig: a singleton for n > 1 may be rejected or broadcast exactly; "
        "giving both range groups there is not asserted",
    ],
    design_ref="§6 C15",
)

# ------------------------------------------------------------------------------------------------------------------
# part 1: threshold specifications
# ------------------------------------------------------------------------------------------------------------------

NICE = [0, 1, 2, 3, 0.5, 1.0, 2.5, -1.0, 100.0, 0.0]
JUNK = ["a", "", "1.0", None]


def numbers():
    return st.one_of(
        st.sampled_from(NICE),
        st.integers(-5, 300),
        st.floats(-1e6, 1e6, allow_nan=False, allow_infinity=False, width=64),
    )


def _good_len(n):
    return st.sampled_from([1, n])


def _any_len(n):
    return st.integers(0, n + 2)


def _bad_len(n):
    return st.sampled_from([k for k in range(0, n + 3) if k not in (1, n)])


def _row(n, lens):
    return lens.flatmap(lambda k: st.lists(numbers(), min_size=k, max_size=k))


def _junk_elem(n):
    return st.one_of(st.sampled_from(JUNK), st.sampled_from(JUNK), _row(n, _any_len(n)), numbers().map(lambda x: [[x]]))


SPEC_KINDS = [
    "scalar",
    "flat_ok",
    "flat_ok",
    "flat_anylen",
    "flat_dirty",
    "nested_ok",
    "nested_ok",
    "nested_ok",
    "nested_badlen",
    "nested_dirty_elem",
    "nested_dirty_row",
    "deep",
    "junk_top",
]


@st.composite
def specs(draw, n, max_rows=4):
    kind = draw(st.sampled_from(SPEC_KINDS))
    if kind == "scalar":
        return draw(numbers())
    if kind == "junk_top":
        return draw(st.sampled_from(JUNK))
    if kind == "flat_ok":
        return draw(_row(n, _good_len(n)))
    if kind == "flat_anylen":
        return draw(_row(n, _any_len(n)))
    if kind == "flat_dirty":
        row = draw(_row(n, st.one_of(_good_len(n), st.integers(1, n + 2))))
        i = draw(st.integers(0, len(row) - 1))
        row[i] = draw(_junk_elem(n))
        return row
    nrows = draw(st.integers(1, max_rows))
    rows = [draw(_row(n, _good_len(n))) for _ in range(nrows)]
    if kind == "nested_ok":
        return rows
    i = draw(st.integers(0, nrows - 1))
    if kind == "nested_badlen":
        rows[i] = draw(_row(n, _bad_len(n)))
        return rows
    if kind == "nested_dirty_elem":
        j = draw(st.integers(0, len(rows[i]) - 1))
        rows[i][j] = draw(st.sampled_from(JUNK))
        return rows
    if kind == "nested_dirty_row":
        rows[i] = draw(st.one_of(numbers(), st.sampled_from(JUNK)))
        return rows
    # deep: depth 3 somewhere
    how = draw(st.sampled_from(["wrap_all", "wrap_elem", "wrap_row"]))
    if how == "wrap_all":
        return [rows]
    if how == "wrap_row":
        rows[i] = [rows[i]]
        return rows
    j = draw(st.integers(0, len(rows[i]) - 1))
    rows[i][j] = [rows[i][j]]
    return rows


@st.composite
def threshold_cases(draw, tier):
    n = draw(st.integers(1, 6 if tier == "quick" else 9))
    nest = draw(st.booleans())
    return {"n": n, "nest": nest, "spec": draw(specs(n, 4 if tier == "quick" else 6))}


ENUM_ELEMS = [1, 2.5, "a", None, [], [1], [1, 2], [1, 2, 3], ["a"], [None], [[1]], [1, "a"]]


def gen_threshold_enum(tier):
    maxlen = 3 if tier == "quick" else 4
    shapes = [1, 2.5, "a", None]
    for k in range(0, maxlen + 1):
        for combo in itertools.product(ENUM_ELEMS, repeat=k):
            shapes.append(list(combo))
    for n in (1, 2, 3):
        for nest in (False, True):
            for s in shapes:
                yield {"n": n, "nest": nest, "spec": s}


def _try(fn, *args):
    """(True, value) or (False, exception).  Only used where the property allows/demands a rejection."""
    try:
        return True, fn(*args)
    except Exception as e:  # noqa: BLE001 - 'an error' of any type is a rejection
        return False, e


def _short(x, k=160):
    s = repr(x)
    return s if len(s) <= k else s[: k - 3] + "..."


def _has_mixed(spec):
    if not isinstance(spec, list):
        return False
    kinds = {"num" if R.is_number(e) else "list" if isinstance(e, list) else "junk" for e in spec}
    return len(kinds) > 1 or "junk" in kinds or any(_has_mixed(e) for e in spec)


def _threshold_body(ctx, d):
    from perception_eval.common.threshold import check_nested_thresholds, check_thresholds, set_thresholds

    n, nest, spec = d["n"], d["nest"], d["spec"]
    mode = "nested" if nest else "flat"
    ok, info = R.verdict(spec, n, nest)
    dep = R.depth(spec)
    broadcast = ok and n >= 2 and (R.is_number(spec) or any(isinstance(r, list) and len(r) == 1 for r in spec) or (not nest and len(spec) == 1) or (nest and dep == 1 and len(spec) != n))
    ctx.mark_nontrivial(dep >= 2 or broadcast or _has_mixed(spec))
    ctx.cls(f"{mode}/{'accept' if ok else 'reject:' + info}")
    ctx.cls(f"depth{dep}")
    if broadcast:
        ctx.cls("broadcast")
    if ok and len(info) == 2:
        ctx.cls("ambiguous_flat_len_n")

    acc, out = _try(set_thresholds, copy.deepcopy(spec), n, nest)
    if ok:
        ctx.require(acc, f"valid-threshold-rejected:{mode}", lambda: f"set_thresholds({_short(spec)}, {n}, {nest}) raised {type(out).__name__}: {out}; reference normal form {_short(info[0])}")
        if acc:
            ctx.require(R.is_normal(out, n, nest), f"not-one-value-per-label:{mode}", lambda: f"set_thresholds({_short(spec)}, {n}, {nest}) = {_short(out)}: not lists of exactly {n} numbers")
            ctx.require(any(R.same(out, f) for f in info), f"wrong-normal-form:{mode}", lambda: f"set_thresholds({_short(spec)}, {n}, {nest}) = {_short(out)}, expected {_short(info)}")
            acc2, out2 = _try(set_thresholds, copy.deepcopy(out), n, nest)
            ctx.require(acc2 and R.same(out2, out), f"not-idempotent:{mode}", lambda: f"set_thresholds applied to its own output {_short(out)} gave {_short(out2)}")
            chk = check_nested_thresholds if nest else check_thresholds
            acc3, out3 = _try(chk, copy.deepcopy(out), n)
            ctx.require(acc3 and R.same(out3, out), f"check-rejects-normal-form:{mode}", lambda: f"{chk.__name__}({_short(out)}, {n}) -> {_short(out3)}")
    else:
        if acc:
            padded = isinstance(out, list) and R.is_normal(out, n, nest)
            ctx.violate(
                f"malformed-threshold-accepted:{mode}:{info}",
                f"set_thresholds({_short(spec)}, {n}, {nest}) returned {_short(out)}"
                f"{' (padded/truncated to the right shape)' if padded else ''}; the specification is malformed ({info}) and must be rejected",
            )

    # the same specification OBJECT normalised again for another number of labels (a scenario file's thresholds are shared
    # by several configurations): the outcome must be what the pristine specification demands, whatever happened before
    if isinstance(spec, list):
        shared = copy.deepcopy(spec)
        _try(set_thresholds, shared, n, nest)
        for n2 in (n + 1, n + 2):
            ok2, info2 = R.verdict(spec, n2, nest)
            accb, outb = _try(set_thresholds, shared, n2, nest)
            if ok2:
                ctx.cls("renormalised_other_n/accept")
                ctx.require(
                    accb and any(R.same(outb, f) for f in info2),
                    f"normalisation-depends-on-earlier-call:{mode}",
                    lambda: f"set_thresholds(spec, {n2}, {nest}) after set_thresholds(spec, {n}, {nest}) on the same object {_short(spec)} gave {_short(outb)} ({type(outb).__name__}); expected {_short(info2)}",
                )
            elif accb:
                ctx.violate(f"malformed-threshold-accepted-after-earlier-call:{mode}:{info2}", f"set_thresholds(spec, {n2}, {nest}) after a call with {n} labels on the same object {_short(spec)} returned {_short(outb)}")

    # the two validity predicates, called the way CriticalObjectFilterConfig / set_thresholds call them
    if isinstance(spec, list):
        chk = check_nested_thresholds if nest else check_thresholds
        want = R.is_normal(spec, n, nest)
        acc4, out4 = _try(chk, copy.deepcopy(spec), n)
        if want:
            ctx.cls("check_fn/valid")
            ctx.require(acc4 and R.same(out4, spec), f"check-valid-rejected:{mode}", lambda: f"{chk.__name__}({_short(spec)}, {n}) -> {_short(out4)}")
        else:
            ctx.cls("check_fn/invalid")
            ctx.require(not acc4, f"check-malformed-accepted:{mode}", lambda: f"{chk.__name__}({_short(spec)}, {n}) returned {_short(out4)}; not a list of {'rows of ' if nest else ''}exactly {n} numbers")


@CHECK.given("thresholds", threshold_cases, quick=1500, thorough=60000)
def thresholds(ctx, d):
    _threshold_body(ctx, d)


@CHECK.enum("thresholds_enum", gen_threshold_enum)
def thresholds_enum(ctx, d):
    _threshold_body(ctx, d)


# ------------------------------------------------------------------------------------------------------------------
# part 2: evaluation configurations
# ------------------------------------------------------------------------------------------------------------------

TASKS_3D = ["detection", "tracking", "fp_validation"]
TASKS_2D = ["detection2d", "tracking2d", "classification2d", "fp_validation2d"]
METRIC_TASKS = ["detection", "tracking", "detection2d", "tracking2d", "classification2d"]
RANGE_XY = ["max_x_position", "max_y_position"]
RANGE_DIST = ["max_distance", "min_distance"]
# config key -> key of filtering_params holding the normalised per-label list
FILTER_OUT = {
    "max_x_position": "max_x_position_list",
    "max_y_position": "max_y_position_list",
    "max_distance": "max_distance_list",
    "min_point_numbers": "min_point_numbers",
    "max_matchable_radii": "max_matchable_radii",
    "confidence_threshold": "confidence_threshold_list",
}
PER_LABEL_OUT = sorted(set(FILTER_OUT.values()) | {"min_distance_list"})
METRIC_KEYS = ["center_distance_thresholds", "plane_distance_thresholds", "iou_2d_thresholds", "iou_3d_thresholds"]
KNOWN_KEYS = set(
    ["evaluation_task", "target_labels", "ignore_attributes", "min_distance", "target_uuids", "label_prefix", "merge_similar_labels"]
    + ["allow_matching_unknown", "matching_label_policy", "count_label_number", "uuid_matching_first"]
    + list(FILTER_OUT)
    + METRIC_KEYS
)
SENSING_KEYS = {"evaluation_task", "target_uuids", "box_scale_0m", "box_scale_100m", "min_points_threshold", "label_prefix", "merge_similar_labels", "count_label_number"}
UNKNOWN_KEYS = ["foo_thresholds", "iou_bev_thresholds", "foo", "center_distance_threshold", "max_x_positon", "target_label", "thresholds"]
AW_NAMES = ["car", "truck", "bus", "bicycle", "motorbike", "pedestrian", "animal", "unknown"]
TL_NAMES = ["green", "red", "yellow", "unknown", "traffic_light", "red_left"]

_STATE = {}


def _root():
    if "root" not in _STATE:
        d = os.path.join(proc_tmp(), "c15")
        os.makedirs(d, exist_ok=True)
        _STATE["root"] = d
    return _STATE["root"]


def _sample_data():
    from vlib import boot

    return os.path.join(boot.REPO, "perception_eval/test/sample_data")


def _n_all(prefix):
    from perception_eval.common.label import AutowareLabel, TrafficLightLabel

    return len(list(AutowareLabel if prefix == "autoware" else TrafficLightLabel))


def _expected_n(cfg):
    labels = cfg.get("target_labels")
    if labels:
        return len(labels)
    return _n_all(cfg.get("label_prefix", "autoware"))


def _construct(kind, cfg, frame):
    from perception_eval.config import PerceptionEvaluationConfig, SensingEvaluationConfig

    cls = PerceptionEvaluationConfig if kind == "perception" else SensingEvaluationConfig
    return cls(
        dataset_paths=[_sample_data()],
        frame_id=copy.deepcopy(frame),
        result_root_directory=_root(),
        evaluation_config_dict=copy.deepcopy(cfg),
        load_raw_data=False,
    )


def _given(cfg, key):
    return cfg.get(key) is not None


def _range_kind(cfg):
    xy = [k for k in RANGE_XY if _given(cfg, k)]
    di = [k for k in RANGE_DIST if _given(cfg, k)]
    return len(xy), len(di)


def _metric_cfgs(obj):
    mc = obj.metrics_config
    return [(a, getattr(mc, a)) for a in ("detection_config", "tracking_config", "classification_config") if getattr(mc, a, None) is not None]


def _snapshot(obj):
    """What an accepted perception config exposes (JSON-like), used to compare two configs."""
    fp = obj.filtering_params
    snap = {k: (copy.deepcopy(v) if not k == "target_labels" else [str(x) for x in v]) for k, v in fp.items()}
    for a, c in _metric_cfgs(obj):
        for k in METRIC_KEYS:
            snap[f"{a}.{k}"] = copy.deepcopy(getattr(c, k))
    return snap


def _check_accepted(ctx, d, cfg, frame, obj, tag):
    """Invariants every accepted configuration must satisfy, derived from the dict alone (DESIGN O (2))."""
    kind, task = d["kind"], cfg["evaluation_task"]
    ctx.require(str(obj.evaluation_task) == task, f"{tag}:task-mismatch", lambda: f"evaluation_task {obj.evaluation_task!r} for config task {task!r}")
    if kind == "sensing":
        ctx.require(len(obj.frame_ids) == 1, f"{tag}:frame-id-count", lambda: f"sensing config exposes {len(obj.frame_ids)} frame ids")
        return
    n = _expected_n(cfg)
    is3d = task in TASKS_3D
    fp = obj.filtering_params
    ctx.require(len(obj.target_labels) == n and len(fp["target_labels"]) == n, f"{tag}:target-label-count", lambda: f"{len(obj.target_labels)} target labels, expected {n}")
    if is3d:
        ctx.require(len(obj.frame_ids) == 1, f"{tag}:frame-id-count", lambda: f"3D config exposes {len(obj.frame_ids)} frame ids")
    # every per-label list: None or exactly n numbers
    for k in PER_LABEL_OUT:
        v = fp.get(k)
        ctx.require(v is None or R.is_normal(v, n, False), f"{tag}:filter-list-shape:{k}", lambda: f"filtering_params[{k!r}] = {_short(v)} is not a list of exactly {n} numbers (config {_short(cfg, 300)})")
    # range kind
    nxy, ndi = _range_kind(cfg)
    xy_out = [fp.get("max_x_position_list"), fp.get("max_y_position_list")]
    di_out = [fp.get("max_distance_list"), fp.get("min_distance_list")]
    if is3d:
        one = (all(v is not None for v in xy_out) and all(v is None for v in di_out)) or (all(v is None for v in xy_out) and all(v is not None for v in di_out))
        ctx.require(one, f"{tag}:range-kind-exposed", lambda: f"3D config exposes x/y={_short(xy_out)} distance={_short(di_out)}: not exactly one range kind")
    # values = reference normal form of what was given
    for k, outk in FILTER_OUT.items():
        if k in RANGE_XY and nxy != 2:
            continue
        if k == "max_distance" and ndi != 2:
            continue
        if not _given(cfg, k):
            if k not in RANGE_XY and k != "max_distance":
                ctx.require(fp.get(outk) is None, f"{tag}:filter-list-invented:{k}", lambda: f"{outk} = {_short(fp.get(outk))} although {k} was not given")
            continue
        ok, forms = R.verdict(cfg[k], n, False)
        if ok:
            ctx.require(fp.get(outk) is not None and R.same(fp[outk], forms[0]), f"{tag}:filter-list-value:{k}", lambda: f"{k}={_short(cfg[k])} normalised to {_short(fp.get(outk))}, expected {_short(forms[0])}")
    if ndi == 2 and nxy == 0 and R.is_number(cfg["min_distance"]):
        ctx.require(fp.get("min_distance_list") is not None and R.same(fp["min_distance_list"], [cfg["min_distance"]] * n), f"{tag}:filter-list-value:min_distance", lambda: f"min_distance={cfg['min_distance']!r} -> {_short(fp.get('min_distance_list'))}")
    # metrics
    mcs = _metric_cfgs(obj)
    if task in METRIC_TASKS:
        ctx.require(len(mcs) >= 1, f"{tag}:no-metrics-config", lambda: f"task {task}: metrics_config holds no per-task config")
    for a, c in mcs:
        for k in METRIC_KEYS:
            got = getattr(c, k)
            ctx.require(R.is_normal(got, n, True), f"{tag}:metric-rows-shape", lambda: f"{a}.{k} = {_short(got)}: rows are not exactly {n} numbers (given {_short(cfg.get(k))})")
            v = cfg.get(k)
            if v is None or v == []:
                ctx.require(got == [], f"{tag}:metric-invented", lambda: f"{a}.{k} = {_short(got)} although it was not given")
            elif v:
                ok, forms = R.verdict(v, n, True)
                if ok:
                    ctx.require(any(R.same(got, f) for f in forms), f"{tag}:metric-rows-value", lambda: f"{k}={_short(v)} normalised to {_short(got)}, expected {_short(forms)}")


# -- mutations ---------------------------------------------------------------------------------------------------


def _mut(cls, set_=None, del_=None, frame=None, note=""):
    m = {"cls": cls, "set": set_ or {}, "del": del_ or [], "note": note}
    if frame is not None:
        m["frame"] = frame
    return m


def _apply(cfg, frame, mut):
    cfg = copy.deepcopy(cfg)
    for k in mut["del"]:
        cfg.pop(k, None)
    for k, v in mut["set"].items():
        cfg[k] = copy.deepcopy(v)
    if isinstance(cfg.get("evaluation_task"), dict) and "__enum__" in cfg["evaluation_task"]:
        # the task given as an EvaluationTask member instead of its name (JSON descriptors cannot hold the member)
        from perception_eval.common.evaluation_task import EvaluationTask

        cfg["evaluation_task"] = EvaluationTask(cfg["evaluation_task"]["__enum__"])
    return cfg, copy.deepcopy(mut.get("frame", frame))


def _bad_lengths(n):
    return [k for k in range(0, n + 3) if k not in (1, n)]


def mutations(b):
    """Every targeted mutation applicable to a valid base configuration; all must be rejected
    (class 'unknown-key' is the recorded finding D8)."""
    kind, cfg, frame = b["kind"], b["cfg"], b["frame"]
    task = cfg["evaluation_task"]
    out = []
    if kind == "sensing":
        for t in ["foo", "detection", "tracking2d", "", None, {"__enum__": "detection"}, {"__enum__": "classification2d"}]:
            out.append(_mut("unsupported-task", {"evaluation_task": t}))
        out.append(_mut("missing-mandatory", del_=["evaluation_task"]))
        for fr in (["base_link", "map"], ["map", "base_link"]):
            out.append(_mut("second-frame-id", frame=fr))
        for k in ["foo", "foo_thresholds", "box_scale_50m"]:
            out.append(_mut("unknown-key", {k: 1.0}))
        return out

    n = _expected_n(cfg)
    is3d = task in TASKS_3D
    for t in ["foo", "sensing", "", "detection3d", None, {"__enum__": "sensing"}]:
        out.append(_mut("unsupported-task", {"evaluation_task": t}))
    out.append(_mut("missing-mandatory", del_=["evaluation_task"], note="evaluation_task"))
    out.append(_mut("missing-mandatory", del_=["label_prefix"], note="label_prefix"))
    if task == "detection":
        out.append(_mut("missing-mandatory", del_=["min_point_numbers"], note="min_point_numbers"))
        out.append(_mut("missing-mandatory", {"min_point_numbers": None}, note="min_point_numbers=None"))
    nxy, ndi = _range_kind(cfg)
    if is3d:
        have, other = (RANGE_XY, RANGE_DIST) if nxy == 2 else (RANGE_DIST, RANGE_XY)
        vals = {"max_x_position": 80.0, "max_y_position": [60.0], "max_distance": 90.0, "min_distance": 2.0}
        out.append(_mut("both-range-kinds", {k: vals[k] for k in other}, note="full"))
        for k in other:
            out.append(_mut("both-range-kinds", {k: vals[k]}, note=f"plus {k} only"))
        # a bound of 0 is a value, not "not given" ("Another groups must be None")
        zeros = {"max_x_position": 0.0, "max_y_position": 0, "max_distance": 0.0, "min_distance": 0.0}
        out.append(_mut("both-range-kinds", {k: zeros[k] for k in other}, note="full, zero-valued"))
        for k in other:
            out.append(_mut("both-range-kinds", {k: zeros[k]}, note=f"plus {k}=0 only"))
        out.append(_mut("no-range-kind", del_=RANGE_XY + RANGE_DIST))
        out.append(_mut("no-range-kind", {k: None for k in RANGE_XY + RANGE_DIST}, note="all None"))
        for k in have:
            out.append(_mut("half-range-kind", del_=[k], note=f"without {k}"))
            out.append(_mut("half-range-kind", {k: None}, note=f"{k}=None"))
        for fr in (["base_link", "map"], ["map", "base_link"], ["base_link", "base_link"]):
            out.append(_mut("second-frame-id", frame=fr))
    # per-label filter lists: the optional ones are validated whenever given, range ones when their kind is in use
    keys = [k for k in FILTER_OUT if _given(cfg, k) or k in ("min_point_numbers", "max_matchable_radii", "confidence_threshold")]
    for k in keys:
        x = 1 if k == "min_point_numbers" else 0.5
        for ln in _bad_lengths(n):
            out.append(_mut("wrong-length", {k: [x] * ln}, note=f"{k} len {ln}"))
        for v in ("a", ["a"], [None], [x] * (n - 1) + ["a"], [[x]], [[x] * n], [x] * (n - 1) + [None]):
            out.append(_mut("non-numeric", {k: v}, note=k))
    if task in METRIC_TASKS:
        for k in METRIC_KEYS:
            for ln in _bad_lengths(n):
                out.append(_mut("wrong-length", {k: [[0.5] * ln]}, note=f"{k} row len {ln}"))
                out.append(_mut("wrong-length", {k: [[0.5] * n, [0.5] * ln]}, note=f"{k} second row len {ln}"))
            for v in ("a", ["a"], [None], [0.5, "a"], [0.5, [0.6]], [[0.5], 0.6], [["a"] * n], [["a", "b"]], [[None]], [[0.5] * (n - 1) + [None]], [[[0.5]]], [[0.5] * n, "a"], [[0.5] * n, ["a"]]):
                out.append(_mut("non-numeric", {k: v}, note=k))
    for k in UNKNOWN_KEYS:
        out.append(_mut("unknown-key", {k: [0.8]}))
    return out


# -- base configurations -----------------------------------------------------------------------------------------


def canonical_base(task, rng="xy", prefix="autoware", labels=("car", "bicycle", "pedestrian", "motorbike")):
    if task == "sensing":
        return {"kind": "sensing", "frame": "base_link", "cfg": {"evaluation_task": "sensing", "target_uuids": None, "box_scale_0m": 1.0, "box_scale_100m": 1.0, "min_points_threshold": 1}}
    is3d = task in TASKS_3D
    n = len(labels)
    cfg = {
        "evaluation_task": task,
        "target_labels": list(labels),
        "ignore_attributes": [],
        "label_prefix": prefix,
        "merge_similar_labels": False,
        "allow_matching_unknown": True,
    }
    if rng == "xy":
        cfg.update(max_x_position=102.4, max_y_position=102.4)
    elif rng == "dist":
        cfg.update(max_distance=100.0, min_distance=10.0)
    if is3d:
        cfg["min_point_numbers"] = [0] * n
    if task not in ("classification2d", "fp_validation", "fp_validation2d"):
        cfg["center_distance_thresholds"] = [[1.0] * n, [2.0] * n]
        cfg["iou_2d_thresholds"] = [0.5]
        if is3d:
            cfg["plane_distance_thresholds"] = [2.0, 3.0]
            cfg["iou_3d_thresholds"] = [0.5]
    return {"kind": "perception", "frame": "base_link" if is3d else "cam_front", "cfg": cfg}


def gen_config_enum(tier):
    for task in TASKS_3D + TASKS_2D:
        for rng in ("xy", "dist") if task in TASKS_3D else ("none", "xy", "dist"):
            prefixes = ["autoware"] if task in TASKS_3D else ["autoware", "traffic_light"]
            for prefix in prefixes:
                labels = ("car", "bicycle", "pedestrian", "motorbike") if prefix == "autoware" else ("green", "red", "yellow")
                b = canonical_base(task, rng, prefix, labels)
                yield dict(b, mut=_mut("identity"))
                for m in mutations(b):
                    yield dict(b, mut=m)
    b = canonical_base("sensing")
    yield dict(b, mut=_mut("identity"))
    for m in mutations(b):
        yield dict(b, mut=m)


def _per_label_form(n_known, elem):
    """scalar | [x] | n-list of `elem` (n-list only when the number of labels is explicit)."""
    opts = [elem, st.lists(elem, min_size=1, max_size=1)]
    if n_known:
        opts.append(st.lists(elem, min_size=n_known, max_size=n_known))
        opts.append(st.lists(elem, min_size=n_known, max_size=n_known))
    return st.one_of(*opts)


def _pos():
    return st.one_of(st.sampled_from([1.0, 2.0, 50.0, 100.0, 102.4, 5, 80]), st.floats(0.5, 300.0, allow_nan=False, width=64))


def _unit():
    return st.one_of(st.sampled_from([0.5, 0.1, 0.9, 1.0, 1]), st.floats(0.01, 1.0, allow_nan=False, width=64))


def _metric_value(n_known, elem):
    rowlen = st.sampled_from([1, n_known]) if n_known else st.just(1)
    rows = st.lists(rowlen.flatmap(lambda k: st.lists(elem, min_size=k, max_size=k)), min_size=1, max_size=3)
    flat = st.lists(elem, min_size=1, max_size=(n_known + 1) if n_known else 3)
    return st.one_of(st.just("absent"), st.none(), st.just([]), elem, flat, flat, rows, rows, rows)


@st.composite
def _labels(draw, pool, unset):
    """Mostly an explicit list of 1..6 distinct names (uniform in length); sometimes 'all labels' (absent/None/[])."""
    k = draw(st.sampled_from([0, 1, 1, 2, 2, 3, 3, 4, 4, 5, 6]))
    if k == 0:
        return draw(st.sampled_from(unset))
    return draw(st.lists(st.sampled_from(pool), min_size=k, max_size=k, unique=True))


@st.composite
def perception_bases(draw):
    task = draw(st.sampled_from(TASKS_3D + TASKS_2D))
    is3d = task in TASKS_3D
    prefix = "autoware" if is3d else draw(st.sampled_from(["autoware", "autoware", "traffic_light"]))
    pool = AW_NAMES if prefix == "autoware" else TL_NAMES
    lab = draw(_labels(pool, ["absent", None, []]))
    cfg = {"evaluation_task": task, "label_prefix": prefix}
    if lab != "absent":
        cfg["target_labels"] = lab
    nk = len(lab) if isinstance(lab, list) and lab else None
    rng = draw(st.sampled_from(["xy", "dist"] if is3d else ["none", "xy", "dist"]))
    if rng == "xy":
        cfg["max_x_position"] = draw(_per_label_form(nk, _pos()))
        cfg["max_y_position"] = draw(_per_label_form(nk, _pos()))
        if draw(st.booleans()):
            cfg.update(max_distance=None, min_distance=None)  # "another group must be None"
    elif rng == "dist":
        cfg["max_distance"] = draw(_per_label_form(nk, _pos()))
        cfg["min_distance"] = draw(st.one_of(st.sampled_from([0.0, 0, 1.0, 10.0]), st.floats(0.0, 20.0, allow_nan=False, width=64)))
        if draw(st.booleans()):
            cfg.update(max_x_position=None, max_y_position=None)
    if task == "detection" or draw(st.booleans()):
        cfg["min_point_numbers"] = draw(_per_label_form(nk, st.integers(0, 20)))
    if draw(st.booleans()):
        cfg["max_matchable_radii"] = draw(_per_label_form(nk, _pos()))
    if draw(st.booleans()):
        cfg["confidence_threshold"] = draw(_per_label_form(nk, _unit()))
    for k in METRIC_KEYS:
        v = draw(_metric_value(nk, _unit() if k.startswith("iou") else _pos()))
        if v != "absent":
            cfg[k] = v
    for k, vals in (
        ("merge_similar_labels", [True, False]),
        ("allow_matching_unknown", [True, False]),
        ("matching_label_policy", ["DEFAULT", "allow_unknown", "ALLOW_ANY"]),
        ("count_label_number", [True, False]),
        ("uuid_matching_first", [True, False]),
        ("target_uuids", [None, ["a", "b"]]),
        ("ignore_attributes", [None, [], ["cycle_state.without_rider"]]),
    ):
        if draw(st.integers(0, 2)) == 0:
            cfg[k] = draw(st.sampled_from(vals))
    if is3d:
        frame = draw(st.sampled_from(["base_link", "map", ["base_link"], ["map"]]))
    else:
        frame = draw(st.sampled_from(["cam_front", "cam_traffic_light", ["cam_front"], ["cam_front", "cam_back"]]))
    return {"kind": "perception", "frame": frame, "cfg": cfg}


@st.composite
def sensing_bases(draw):
    cfg = {"evaluation_task": "sensing"}
    if draw(st.booleans()):
        cfg["target_uuids"] = draw(st.sampled_from([None, ["a"]]))
    for k in ("box_scale_0m", "box_scale_100m"):
        if draw(st.booleans()):
            cfg[k] = draw(st.floats(0.5, 2.0, allow_nan=False, width=64))
    if draw(st.booleans()):
        cfg["min_points_threshold"] = draw(st.integers(0, 5))
    if draw(st.booleans()):
        cfg["label_prefix"] = "autoware"
    return {"kind": "sensing", "frame": draw(st.sampled_from(["base_link", "map", ["base_link"]])), "cfg": cfg}


@st.composite
def config_cases(draw, tier):
    b = draw(sensing_bases()) if draw(st.sampled_from(range(12))) == 0 else draw(perception_bases())
    muts = mutations(b)
    classes = sorted({m["cls"] for m in muts})
    options = list(classes)
    if b["kind"] == "perception":
        options += ["respell"] * 4 + ["wrong-length", "non-numeric", "unknown-key-random"]
    options.append("identity")
    options.append("task-as-member")
    c = draw(st.sampled_from(options))
    if c == "identity":
        mut = _mut("identity")
    elif c == "task-as-member":
        # the same valid configuration with its task given as the EvaluationTask member: accepted, same normalised lists
        mut = _mut("task-as-member", {"evaluation_task": {"__enum__": b["cfg"]["evaluation_task"]}})
    elif c == "unknown-key-random":
        key = draw(st.from_regex(r"[a-z][a-z0-9_]{0,24}", fullmatch=True).filter(lambda k: k not in KNOWN_KEYS))
        mut = _mut("unknown-key", {key: draw(st.one_of(numbers(), st.just([0.8]), st.just("x")))})
    elif c == "respell":
        # replace one per-label / metric value by an arbitrary spec; the reference decides what must happen
        cfg = b["cfg"]
        n = _expected_n(cfg)
        keys = [k for k in FILTER_OUT if _given(cfg, k) or k in ("min_point_numbers", "max_matchable_radii", "confidence_threshold")]
        if cfg["evaluation_task"] in METRIC_TASKS:
            keys += METRIC_KEYS
        key = draw(st.sampled_from(keys))
        mut = _mut("respell", {key: draw(specs(n))}, note=key)
    else:
        mut = draw(st.sampled_from([m for m in muts if m["cls"] == c]))
    return dict(b, mut=mut)


def _config_body(ctx, d):
    kind, cfg, frame, mut = d["kind"], d["cfg"], d["frame"], d["mut"]
    task = cfg["evaluation_task"]
    ctx.cls(f"task/{task}")
    ctx.cls(f"mutation/{mut['cls']}")
    ctx.mark_nontrivial(mut["cls"] != "identity")

    # (1) valid by construction => accepted, (2) accepted => invariants
    base = None
    with ctx.under_test(f"{kind}-config(valid)"):
        base = _construct(kind, cfg, frame)
    if base is None:  # construction crashed and the crash is a listed finding
        return
    _check_accepted(ctx, d, cfg, frame, base, "valid-config")
    if mut["cls"] == "identity":
        return

    mcfg, mframe = _apply(cfg, frame, mut)
    cls = mut["cls"]
    if cls == "respell":
        (key, val), = mut["set"].items()
        n = _expected_n(cfg)
        nested = key in METRIC_KEYS
        if val is None or (nested and (val == [] or not val)) or (key == "min_point_numbers" and val is None):
            ctx.cls("respell/not-given-skipped")
            return
        ok, info = R.verdict(val, n, nested)
        ctx.cls(f"respell/{'valid' if ok else 'invalid'}")
        acc, obj = _try(_construct, kind, mcfg, mframe)
        if ok:
            ctx.require(acc, "valid-respelling-rejected", lambda: f"task {task}: {key}={_short(val)} (n={n}) raised {type(obj).__name__}: {obj}")
            if acc:
                _check_accepted(ctx, d, mcfg, mframe, obj, "respelled-config")
        else:
            kind_ = "wrong-length" if info in ("wrong-length", "wrong-row-length", "empty", "empty-row") else "non-numeric"
            ctx.require(not acc, f"config-{kind_}-accepted", lambda: f"task {task}: {key}={_short(val)} (n={n}, malformed: {info}) was accepted; exposed {_short(_snapshot(obj).get(FILTER_OUT.get(key, key)), 200)}")
        return

    if cls == "task-as-member":
        acc, obj = _try(_construct, kind, mcfg, mframe)
        ctx.require(acc, "task-as-member-rejected", lambda: f"task {task} given as the EvaluationTask member raised {type(obj).__name__}: {obj}")
        if acc and kind == "perception":
            ctx.require(_snapshot(obj) == _snapshot(base), "task-as-member-differs", lambda: f"task {task}: configuration built from the member differs from the one built from its name")
        return

    # (3) targeted mutation => rejected
    acc, obj = _try(_construct, kind, mcfg, mframe)
    if not acc:
        ctx.cls(f"rejected-with/{type(obj).__name__}")
        return
    what = f"task {task}: mutation {cls} {_short(mut['set'])} del={mut['del']} frame={mut.get('frame')} {mut['note']}".strip()
    if cls == "unknown-key":
        if kind == "sensing":
            ctx.cls("sensing-unknown-key-accepted(not asserted)")
            return
        keys = sorted(mut["set"])
        if _snapshot(obj) == _snapshot(base):
            # D8: every key the config layer does not read is silently dropped, for every perception task
            ctx.violate("unknown-config-key-accepted", f"{what}: unknown key(s) {keys} silently accepted (docs: MetricsParameterError 'Unexpected parameters')")
        else:
            ctx.violate("unknown-config-key-changes-config", f"{what}: unknown key(s) {keys} accepted AND changed the resulting configuration")
        return
    ctx.violate(f"config-{cls}-accepted", f"{what}: configuration was accepted; filtering_params={_short({k: v for k, v in obj.filtering_params.items() if k != 'target_labels'}, 300) if kind == 'perception' else ''}")


@CHECK.given("config", config_cases, quick=700, thorough=20000)
def config(ctx, d):
    _config_body(ctx, d)


@CHECK.enum("config_enum", gen_config_enum)
def config_enum(ctx, d):
    _config_body(ctx, d)


# ------------------------------------------------------------------------------------------------------------------
# part 3: per-frame configs (CriticalObjectFilterConfig, PerceptionPassFailConfig)
# ------------------------------------------------------------------------------------------------------------------

CRIT_LISTS = ["max_x_position_list", "max_y_position_list", "max_distance_list", "min_distance_list", "min_point_numbers", "confidence_threshold_list"]
PF_LISTS = ["matching_threshold_list", "confidence_threshold_list"]


def _evaluator(task, prefix):
    key = f"ev/{task}/{prefix}"
    if key not in _STATE:
        b = canonical_base(task, "xy" if task in TASKS_3D else "none", prefix, ("car", "bicycle") if prefix == "autoware" else ("green", "red"))
        _STATE[key] = _construct("perception", b["cfg"], b["frame"])
    return _STATE[key]


@st.composite
def frame_cases(draw, tier):
    task = draw(st.sampled_from(TASKS_3D + TASKS_2D))
    is3d = task in TASKS_3D
    prefix = "autoware" if is3d else draw(st.sampled_from(["autoware", "traffic_light"]))
    pool = AW_NAMES if prefix == "autoware" else TL_NAMES
    labels = draw(_labels(pool, [None, []]))
    n = len(labels) if labels else _n_all(prefix)
    which = draw(st.sampled_from(["critical", "critical", "critical", "passfail"]))
    if which == "critical":
        group = draw(st.sampled_from((["xy", "xy", "dist", "dist", "half", "none", "both"]) if is3d else ["none", "none", "xy", "dist", "half"]))
        active = {"xy": CRIT_LISTS[:2], "dist": CRIT_LISTS[2:4], "none": [], "both": CRIT_LISTS[:4]}.get(group)
        if group == "half":
            active = [draw(st.sampled_from(CRIT_LISTS[:4]))]
        active = list(active) + [k for k in CRIT_LISTS[4:] if draw(st.booleans())]
    else:
        group = None
        active = [k for k in PF_LISTS if draw(st.booleans())]
    clean = draw(st.sampled_from([True, False, False]))
    args, modes = {}, {}
    for k in active:
        mode = "ok" if clean else draw(st.sampled_from(["ok", "ok", "len1", "badlen", "junk"]))
        elem = st.integers(0, 20) if k == "min_point_numbers" else _pos()
        if mode == "len1" and n == 1:
            mode = "ok"
        if mode == "ok":
            v = draw(st.lists(elem, min_size=n, max_size=n))
        elif mode == "len1":
            v = draw(st.lists(elem, min_size=1, max_size=1))
        elif mode == "badlen":
            lo = 2 if k in CRIT_LISTS[:4] else 0  # an empty range list reads as "not given": not generated
            ln = draw(st.sampled_from([x for x in range(lo, n + 3) if x not in (1, n)]))
            v = draw(st.lists(elem, min_size=ln, max_size=ln))
        else:
            v = draw(st.lists(elem, min_size=n, max_size=n))
            v[draw(st.integers(0, n - 1))] = draw(st.sampled_from(["a", None, [1.0]]))
        args[k] = v
        modes[k] = mode
    return {"task": task, "prefix": prefix, "labels": labels, "which": which, "group": group, "args": args, "modes": modes}


@CHECK.given("frame_configs", frame_cases, quick=500, thorough=15000)
def frame_configs(ctx, d):
    from perception_eval.evaluation.result.perception_frame_config import CriticalObjectFilterConfig, PerceptionPassFailConfig

    task, prefix, labels, which, group, args = d["task"], d["prefix"], d["labels"], d["which"], d["group"], d["args"]
    is3d = task in TASKS_3D
    n = len(labels) if labels else _n_all(prefix)
    ev = _evaluator(task, prefix)
    cls = CriticalObjectFilterConfig if which == "critical" else PerceptionPassFailConfig
    names = CRIT_LISTS if which == "critical" else PF_LISTS

    def shape(v):
        if not isinstance(v, list) or not all(R.is_number(e) for e in v):
            return "junk"
        return "ok" if len(v) == n else "len1" if len(v) == 1 else "badlen"

    shapes = {k: shape(v) for k, v in args.items()}
    ctx.mark_nontrivial(any(s != "ok" for s in shapes.values()))
    ctx.cls(f"{which}/{group}")
    for s in sorted(set(shapes.values())):
        ctx.cls(f"list/{s}")

    acc, obj = _try(lambda: cls(ev, copy.deepcopy(labels), **copy.deepcopy(args)))
    what = f"{cls.__name__}(task={task}, target_labels={labels}, {_short(args, 300)}) with {n} target labels"
    if which == "critical" and is3d and group in ("none", "half"):
        ctx.cls("expect/reject(no complete range group)")
        ctx.require(not acc, "critical-filter-no-range-accepted", lambda: f"{what}: 3D task without a complete x/y or distance group was accepted")
        return
    # strict keys: the list is in use, so its shape must be enforced.  lenient keys: range lists of a 2D task
    # (documented "Only 3D") or of a call giving both groups (which group wins is not asserted): the library may
    # validate, ignore or refuse them, but must not expose a list of the wrong shape.
    lenient = [k for k in args if k in CRIT_LISTS[:4] and (not is3d or group == "both")] if which == "critical" else []
    strict = [k for k in args if k not in lenient]
    must_reject = [k for k in strict if shapes[k] in ("badlen", "junk")]
    may_either = [k for k in strict if shapes[k] == "len1"]
    if lenient:
        ctx.cls("critical/lenient-range-lists")
    if must_reject:
        ctx.cls("expect/reject")
        ctx.require(not acc, "frame-config-bad-list-accepted:" + which, lambda: f"{what}: accepted although {must_reject} are not lists of exactly {n} numbers; exposed {_short({k: getattr(obj, k, None) for k in must_reject})}")
        return
    if not may_either and not lenient:
        ctx.cls("expect/accept")
        ctx.require(acc, "frame-config-valid-rejected:" + which, lambda: f"{what}: raised {type(obj).__name__}: {obj}")
    else:
        ctx.cls("expect/either")
    if not acc:
        return
    ctx.require(len(obj.target_labels) == n, "frame-config-label-count", lambda: f"{what}: {len(obj.target_labels)} target labels")
    for k in names:
        got = getattr(obj, k)
        if k in lenient or (lenient and k in CRIT_LISTS[:4]):
            ctx.require(got is None or R.is_normal(got, n, False), "frame-config-list-shape", lambda: f"{what}: {k} = {_short(got)} is neither None nor a list of exactly {n} numbers")
        elif k not in args:
            ctx.require(got is None, "frame-config-list-invented", lambda: f"{what}: {k} = {_short(got)} although not given")
        else:
            want = args[k] if shapes[k] == "ok" else args[k] * n
            ctx.require(R.is_normal(got, n, False) and R.same(got, want), "frame-config-list-shape", lambda: f"{what}: {k} = {_short(got)}, expected {_short(want)}")


# ------------------------------------------------------------------------------------------------------------------
# part 4: the metrics layer itself rejects parameters that are not metric parameters (docs error case 4)
# ------------------------------------------------------------------------------------------------------------------


def gen_metrics_params(tier):
    for task in METRIC_TASKS:
        yield {"task": task, "extra": None}
        for k in UNKNOWN_KEYS + ["max_x_position", "min_point_numbers", "label_prefix", "evaluation_task"]:
            yield {"task": task, "extra": k}


@CHECK.enum("metrics_params", gen_metrics_params)
def metrics_params(ctx, d):
    from perception_eval.common.evaluation_task import EvaluationTask
    from perception_eval.common.label import AutowareLabel
    from perception_eval.evaluation.metrics import MetricsScoreConfig

    task = EvaluationTask(d["task"])
    labels = [AutowareLabel.CAR, AutowareLabel.PEDESTRIAN]
    params = {"target_labels": labels, "center_distance_thresholds": [1.0, 2.0, 3.0], "plane_distance_thresholds": None, "iou_2d_thresholds": [[0.5]], "iou_3d_thresholds": None}
    ctx.cls("valid" if d["extra"] is None else "extra-parameter")
    ctx.mark_nontrivial(d["extra"] is not None)
    if d["extra"] is None:
        with ctx.under_test("MetricsScoreConfig(valid)"):
            mc = MetricsScoreConfig(task, **params)
            cfgs = [c for c in (mc.detection_config, mc.tracking_config, mc.classification_config) if c is not None]
            ctx.require(len(cfgs) >= 1, "metrics-no-config", f"MetricsScoreConfig({task}) holds no config")
            for c in cfgs:
                ctx.require(R.same(c.center_distance_thresholds, [[1.0, 1.0], [2.0, 2.0], [3.0, 3.0]]) and R.same(c.iou_2d_thresholds, [[0.5, 0.5]]) and c.plane_distance_thresholds == [] and c.iou_3d_thresholds == [], "metrics-normal-form", lambda: f"{vars(c)}")
        return
    params[d["extra"]] = [0.8]
    acc, obj = _try(lambda: MetricsScoreConfig(task, **params))
    ctx.require(not acc, "metrics-unknown-parameter-accepted", lambda: f"MetricsScoreConfig({d['task']}, ..., {d['extra']}=[0.8]) was accepted; docs: MetricsParameterError")


# ------------------------------------------------------------------------------------------------
# coverage-guided driving of the threshold oracle (atheris / libFuzzer): same body, bytes decoded into a specification
# ------------------------------------------------------------------------------------------------


def _decode_threshold_case(fdp):
    n = fdp.ConsumeIntInRange(1, 6)
    nest = fdp.ConsumeBool()
    nums = [0, 1, 2, 3, 0.5, 1.0, 2.5, -1.0, 100.0]

    def elem(depth):
        k = fdp.ConsumeIntInRange(0, 11)
        if k <= 5:
            return nums[fdp.ConsumeIntInRange(0, len(nums) - 1)]
        if k == 6:
            return "a"
        if k == 7:
            return None
        if depth >= 3:
            return 1.0
        length = fdp.ConsumeIntInRange(0, n + 2)
        if k == 8:
            length = 1
        elif k == 9:
            length = n
        return [elem(depth + 1) for _ in range(length)]

    if fdp.ConsumeIntInRange(0, 7) == 0:
        spec = nums[fdp.ConsumeIntInRange(0, len(nums) - 1)]
    else:
        spec = [elem(1) for _ in range(fdp.ConsumeIntInRange(0, n + 2))]
    return {"n": n, "nest": nest, "spec": spec}


@CHECK.fuzz("thresholds_fuzz", _decode_threshold_case, quick=4000, thorough=400000, seeds=[b"\x02\x01\x01\x03\x09\x02\x01\x00\x01\x00", b"\x03\x00\x01\x02\x01\x00"])
def thresholds_fuzz(ctx, d):
    _threshold_body(ctx, d)
