"""C11 — classification pairs objects by identity and scores them by label agreement.

Objects are ROI-less `DynamicObject2D`s described by triples `[camera, uuid, label]`; a case is
`{"fam": "tl"|"autoware", "uf": bool, "targets": [label..], "frames": [{"est": [triple..], "gt": [triple..]}..]}`.
uuids are non-null and unique per side and camera (P5); labels of both sides are members of `targets`
(the manager filters both sides by target label before matching).

Pairing oracle (validity + maximality, written from the statement, no re-implementation of the loops):
pairs only within a camera, every object in at most one result, nothing in the output that was not in the
input; generic: the pairs are exactly the (uuid, camera) coincidences; traffic lights: every pair is
label-equal (and uuid-equal when uuid-first) or uuid-equal, the number of label-equal pairs is
sum_{camera,label} min(#est, #gt) (resp. the number of (uuid, camera, label) coincidences), and no estimate
and ground truth with equal uuid and camera are both left unpaired.  What happens to unpaired estimates is
not pinned down (GT-less result or dropped: both accepted).

Score oracle: the results are divided per label and fed to ClassificationMetricsScore exactly as
PerceptionFrameResult.evaluate_frame / PerceptionEvaluationManager.get_scene_result do; for every target
label L: R = reported results whose estimate carries L, TP = those paired with a ground truth of label L,
G = ground truths labelled L; accuracy = TP/(TP+FP+FN) = TP/(R+G-TP), precision = TP/R, recall = TP/G,
F1 = 2PR/(P+R) = 2TP/(R+G); the totals use the summed counts.  A score whose denominator is 0 is
"undefined" and whatever the library returns for it (inf / nan) is accepted.
"""
import itertools
import math

from hypothesis import strategies as st

from vlib import desc as D
from vlib import gen as GEN
from vlib.harness import Check

CHECK = Check(
    "C11",
    rule=(
        "small_instances: every instance (as a pair of sets; list order canonical or GT side reversed, alternating) "
        "with <=3 estimates (quick: <=2) and <=3 GTs over 2 cameras x uuids {u1,u2,u3} x 3 labels, traffic-light "
        "(both uuid_matching_first values) and generic family, enumerated completely; random_instances / "
        "metrics_scenes: Hypothesis, up to 12 objects per side over 4 cameras (one of them cam_traffic_light), all "
        "classification labels of the family, estimates built relative to GTs (same / label flipped / uuid changed / "
        "camera changed / dropped / extra / uuids of two estimates exchanged), both lists shuffled, 1-3 frames and a "
        "target-label list (single, few, subset, all) for the frame and scene scores. "
        "Non-trivial = objects in >=2 cameras, or a returned pair with equal label and different uuids, or a returned "
        "pair with equal uuid and different labels; distinct by descriptor hash."
    ),
    assumptions=[
        "P5: uuids non-null and unique per side and camera; one label family per call (the dispatch looks at the first estimate)",
        "both sides carry target labels only (the manager filters estimates and GTs by target label before matching), except "
        "that estimates may be unknown-labelled when unknown is not a target (the filter's documented relaxation): such an "
        "estimate paired with a target-labelled ground truth counts as a reported, wrong result of that ground truth's label",
        "no traffic_light (non-classification) labels; a ground truth may be annotated false_positive (1 frame in 6): then only "
        "the pairing is asserted, the counting of a pair with it is not defined by the statement",
        "the fate of unpaired estimates (GT-less result or dropped) is not asserted",
        "undefined scores (zero denominator; F1 when precision+recall=0 or one of them undefined) are accepted as returned",
        "scores compared with 1e-9 absolute tolerance; [0,1] means [-1e-9, 1+1e-9]",
    ],
    design_ref="§6 C11",
)

TOL = 1e-9
CAMS2 = ["cam_front", "cam_back"]
CAMS4 = ["cam_front", "cam_back", "cam_traffic_light", "cam_traffic_light_near"]
UUIDS3 = ["u1", "u2", "u3"]
SMALL_LABELS = {"tl": ["green", "red", "unknown"], "autoware": ["car", "bicycle", "unknown"]}
ALL_LABELS = {
    "tl": [
        "green", "green_straight", "green_left", "green_right",
        "yellow", "yellow_straight", "yellow_left", "yellow_right",
        "yellow_straight_left", "yellow_straight_right", "yellow_straight_left_right",
        "red", "red_straight", "red_left", "red_right",
        "red_straight_left", "red_straight_right", "red_straight_left_right",
        "red_left_diagonal", "red_right_diagonal", "unknown",
    ],
    "autoware": ["car", "truck", "bus", "bicycle", "motorbike", "pedestrian", "animal", "unknown"],
}  # fmt: skip


# ------------------------------------------------------------------------------------------------
# descriptor -> library objects (local fast equivalent of vlib.desc.obj2d for ROI-less objects)
# ------------------------------------------------------------------------------------------------

_LIB = {}


def _lib():
    if not _LIB:
        from perception_eval.common.evaluation_task import EvaluationTask
        from perception_eval.common.label import AutowareLabel, Label, TrafficLightLabel
        from perception_eval.common.object2d import DynamicObject2D
        from perception_eval.common.schema import FrameID
        from perception_eval.evaluation.matching.objects_filter import divide_objects, divide_objects_to_num
        from perception_eval.evaluation.metrics.classification.accuracy import ClassificationAccuracy
        from perception_eval.evaluation.metrics.classification.classification_metrics_score import (
            ClassificationMetricsScore,
        )
        from perception_eval.evaluation.result.object_result import get_object_results

        _LIB.update(
            task=EvaluationTask.CLASSIFICATION2D,
            Label=Label,
            Obj=DynamicObject2D,
            cam={c: FrameID.from_value(c) for c in CAMS4},
            lab={
                "tl": {n: TrafficLightLabel(n) for n in ALL_LABELS["tl"] + ["false_positive"]},
                "autoware": {n: AutowareLabel(n) for n in ALL_LABELS["autoware"] + ["false_positive"]},
            },
            divide=divide_objects,
            divide_num=divide_objects_to_num,
            Acc=ClassificationAccuracy,
            Score=ClassificationMetricsScore,
            match=get_object_results,
        )
    return _LIB


def _build(fam, triples, gt=False):
    """Fresh ROI-less DynamicObject2D per triple (same fields as desc.obj2d({"cam","roi":None,"label","fam","uuid"})).

    Ground truths carry the dataset's original category name and attributes, as loaded annotations do (the converted
    label is what the statement compares); estimates carry the plain label name."""
    L = _lib()
    Obj, Label, cams, labs = L["Obj"], L["Label"], L["cam"], L["lab"][fam]
    return [
        Obj(
            unix_time=D.T0,
            frame_id=cams[c],
            semantic_score=1.0,
            semantic_label=Label(labs[lab], ("crosswalk_" if fam == "tl" else "vehicle.") + lab, ["state." + str(i % 2)]) if gt else Label(labs[lab], lab, []),
            roi=None,
            uuid=u,
            visibility=None,
        )
        for i, (c, u, lab) in enumerate(triples)
    ]


# ------------------------------------------------------------------------------------------------
# pairing oracle
# ------------------------------------------------------------------------------------------------


def _match_and_check(ctx, fam, uf, E, G):
    """Runs get_object_results on one frame; asserts the pairing part of the property.

    Returns (est_objs, gt_objs, results, rows) with rows = [(i, j|None)] in result order, or None if the
    output could not be mapped back to the input (only reachable past a known finding).
    """
    L = _lib()
    est, gt = _build(fam, E), _build(fam, G, gt=True)
    res = None
    with ctx.under_test("get_object_results(ROI-less 2D)"):
        res = L["match"](L["task"], est, gt, uuid_matching_first=uf)
    if res is None:
        return None
    ctx.require(isinstance(res, list), "result-not-list", lambda: f"{type(res)}")

    # -- nothing that was not in the input, nothing twice ---------------------------------------
    idx_e = {id(o): i for i, o in enumerate(est)}
    idx_g = {id(o): j for j, o in enumerate(gt)}
    rows, used_e, used_g = [], set(), set()
    ok = True
    for r in res:
        i = idx_e.get(id(r.estimated_object))
        if i is None:
            ctx.violate("estimate-not-from-input", "a result carries an estimate that is not an element of the input list")
            ok = False
            continue
        if i in used_e:
            ctx.violate("estimate-used-twice", f"estimate #{i} {E[i]} appears in two results")
            ok = False
        used_e.add(i)
        g = r.ground_truth_object
        if g is None:
            rows.append((i, None))
            continue
        j = idx_g.get(id(g))
        if j is None:
            ctx.violate("gt-not-from-input", "a result carries a ground truth that is not an element of the input list")
            ok = False
            continue
        if j in used_g:
            ctx.violate("gt-used-twice", f"ground truth #{j} {G[j]} is paired with two estimates")
            ok = False
        used_g.add(j)
        rows.append((i, j))
    pairs = [(i, j) for (i, j) in rows if j is not None]

    # -- classes / non-trivial rule -------------------------------------------------------------
    cams_used = {t[0] for t in E} | {t[0] for t in G}
    lab_pair_diff_uuid = any(E[i][2] == G[j][2] and E[i][1] != G[j][1] for i, j in pairs)
    uuid_pair_diff_lab = any(E[i][1] == G[j][1] and E[i][2] != G[j][2] for i, j in pairs)
    ctx.mark_nontrivial(len(cams_used) >= 2 or lab_pair_diff_uuid or uuid_pair_diff_lab)
    if len(cams_used) >= 2:
        ctx.cls("two_or_more_cameras")
    if lab_pair_diff_uuid:
        ctx.cls("label_equal_pair_with_different_uuid")
    if uuid_pair_diff_lab:
        ctx.cls("uuid_equal_pair_with_different_label")
    if len(used_e) < len(E):
        ctx.cls("estimate_dropped")
    if len(pairs) < len(rows):
        ctx.cls("gtless_result")
    if len(used_g) < len(G):
        ctx.cls("gt_unpaired")
    if not pairs:
        ctx.cls("no_pairs")

    # -- only within a camera ---------------------------------------------------------------------
    for i, j in pairs:
        if E[i][0] != G[j][0]:
            ctx.violate("pair-across-cameras", f"estimate #{i} {E[i]} paired with ground truth #{j} {G[j]}")

    if fam != "tl":
        # generic: paired iff same (uuid, camera) on the other side -- and with exactly that object
        gslot = {(t[0], t[1]): j for j, t in enumerate(G)}
        want = sorted((i, gslot[(t[0], t[1])]) for i, t in enumerate(E) if (t[0], t[1]) in gslot)
        ctx.require(
            sorted(pairs) == want,
            "generic-pairs-not-the-uuid-coincidences",
            lambda: f"pairs {sorted(pairs)} but (uuid, camera) coincidences are {want}; est={E} gt={G}",
        )
        return est, gt, res, (rows if ok else None)

    # -- traffic lights ----------------------------------------------------------------------------
    for i, j in pairs:
        same_uuid = E[i][1] == G[j][1]
        same_lab = E[i][2] == G[j][2]
        if uf and not same_uuid:
            ctx.violate(
                "tlr-uuid-first-pair-with-different-uuid",
                f"uuid_matching_first: estimate #{i} {E[i]} paired with ground truth #{j} {G[j]}",
            )
        if not (same_lab or same_uuid):
            ctx.violate("tlr-pair-neither-label-nor-uuid", f"estimate #{i} {E[i]} paired with ground truth #{j} {G[j]}")
    n_correct = sum(1 for i, j in pairs if E[i][2] == G[j][2])
    if uf:
        gfull = {tuple(t) for t in G}
        best = sum(1 for t in E if tuple(t) in gfull)
    else:
        ce, cg = {}, {}
        for t in E:
            ce[(t[0], t[2])] = ce.get((t[0], t[2]), 0) + 1
        for t in G:
            cg[(t[0], t[2])] = cg.get((t[0], t[2]), 0) + 1
        best = sum(min(n, cg.get(k, 0)) for k, n in ce.items())
    if ok:
        ctx.require(
            n_correct == best,
            "tlr-label-correct-pairs-not-maximal" if n_correct < best else "tlr-label-correct-pairs-above-maximum",
            lambda: f"{n_correct} label-equal pairs, the rule allows exactly {best} (uuid_first={uf}); est={E} gt={G} pairs={pairs}",
        )
    free_g = {(t[0], t[1]) for j, t in enumerate(G) if j not in used_g}
    paired_e = {p[0] for p in pairs}
    for i, t in enumerate(E):
        if i not in paired_e and (t[0], t[1]) in free_g:
            ctx.violate(
                "tlr-leftover-with-equal-uuid",
                f"estimate #{i} {t} and the ground truth with the same uuid and camera are both unpaired; pairs={pairs}",
            )
    return est, gt, res, (rows if ok else None)


# ------------------------------------------------------------------------------------------------
# score oracle
# ------------------------------------------------------------------------------------------------


NAMES = ("Accuracy", "Precision", "Recall", "F1score")
ZERO_OR_UNDEF = "zero-or-undefined"


def _expected(tp, r, g):
    """Counting definitions (Accuracy, Precision, Recall, F1); None = undefined, ZERO_OR_UNDEF for F1 with P+R=0."""
    acc = tp / (r + g - tp) if (r + g - tp) != 0 else None
    prec = tp / r if r != 0 else None
    rec = tp / g if g != 0 else None
    if prec is None or rec is None:
        f1 = None
    elif tp == 0:
        f1 = ZERO_OR_UNDEF
    else:
        f1 = 2 * tp / (r + g)
    return (acc, prec, rec, f1)


def _cmp_scores(ctx, got, tp, r, g, where):
    """got = (accuracy, precision, recall, f1) as returned by the library."""
    exp = _expected(tp, r, g)
    undefined = 0
    for k in range(4):
        e, v = exp[k], got[k]
        if e is None:
            undefined += 1
            continue
        if e is ZERO_OR_UNDEF:
            if not (isinstance(v, float) and (v == 0.0 or not math.isfinite(v))):
                ctx.violate(f"{where}:F1score-nonzero-without-tp", f"{where}: F1 = {v!r} with TP=0, reported={r}, GT={g}")
            continue
        fin = isinstance(v, (int, float)) and math.isfinite(v)
        if not (fin and -TOL <= v <= 1 + TOL):
            ctx.violate(
                f"{where}:{NAMES[k]}-outside-unit-interval",
                f"{where}: {NAMES[k]} = {v!r} although defined (TP={tp}, reported={r}, GT={g})",
            )
        elif abs(v - e) > TOL:
            ctx.violate(
                f"{where}:{NAMES[k]}-differs-from-counting-definition",
                f"{where}: {NAMES[k]} = {v!r}, counting definition gives {e!r} (TP={tp}, reported={r}, GT={g})",
            )
    if g > 0 and tp == g and r == g:
        for k in range(4):
            v = got[k]
            if not (isinstance(v, (int, float)) and abs(v - 1.0) <= TOL):
                ctx.violate(
                    f"{where}:all-correct-but-{NAMES[k]}-not-1",
                    f"{where}: every GT paired with an equally-labelled estimate and nothing else reported, {NAMES[k]} = {v!r}",
                )
    return undefined


def _counts(targets, E, G, rows):
    """Per target label (R, TP, G) from the *descriptors* and the observed rows."""
    out = {t: [0, 0, 0] for t in targets}
    for i, j in rows:
        lab = E[i][2]
        if lab not in out:
            # an estimate whose label is not a target (unknown-labelled) paired with a target-labelled ground truth is a
            # reported, wrong result for that ground truth's label; without a ground truth it belongs to no label
            if j is not None and G[j][2] in out:
                out[G[j][2]][0] += 1
            continue
        out[lab][0] += 1
        if j is not None and G[j][2] == lab:
            out[lab][1] += 1
    for t in G:
        if t[2] in out:  # (a `false_positive`-annotated ground truth belongs to no target label)
            out[t[2]][2] += 1
    return out


def _score_frame(ctx, fam, targets, E, G, gt, res, rows):
    """Frame-level scores the way PerceptionFrameResult.evaluate_frame builds them. Returns (dict, numdict, counts)."""
    L = _lib()
    tl = [L["lab"][fam][t] for t in targets]
    cnt = _counts(targets, E, G, rows)
    score = rd = nd = None
    with ctx.under_test("ClassificationMetricsScore(frame)"):
        rd = L["divide"](res, tl)
        nd = L["divide_num"](gt, tl)
        score = L["Score"](object_results_dict=rd, num_ground_truth_dict=nd, target_labels=tl)
        summ = score._summarize()
    if score is None:
        return None
    _check_score(ctx, score, summ, targets, cnt, "frame")
    return rd, nd, cnt


def _check_score(ctx, score, summ, targets, cnt, where):
    obs = None
    with ctx.under_test("ClassificationAccuracy.results"):
        obs = [(a.results, a.num_tp, a.num_fp, a.num_ground_truth) for a in score.accuracies]
    if obs is None:
        return
    ctx.require(len(obs) == len(targets), f"{where}:number-of-label-scores", lambda: f"{len(obs)} vs {len(targets)}")
    R = TP = Gn = 0
    undefined = all_correct = 0
    for t, (res_d, ntp, nfp, ngt) in zip(targets, obs):
        r, tp, g = cnt[t]
        R, TP, Gn = R + r, TP + tp, Gn + g
        if not (res_d.get("predict_num") == r and ntp == tp and nfp == r - tp and ngt == g):
            ctx.violate(
                f"{where}:label-counts",
                f"{where}[{t}]: predict_num/num_tp/num_fp/num_ground_truth = {res_d.get('predict_num')}/{ntp}/{nfp}/{ngt}, "
                f"pairs give reported={r} TP={tp} FP={r - tp} GT={g}",
            )
        got = (res_d.get("Accuracy"), res_d.get("Precision"), res_d.get("Recall"), res_d.get("F1score"))
        undefined += _cmp_scores(ctx, got, tp, r, g, f"{where}[label]")
        if g > 0 and tp == g and r == g:
            all_correct += 1
    ctx.require(isinstance(summ, tuple) and len(summ) == 4, f"{where}:summarize-shape", lambda: f"{summ!r}")
    undefined_total = _cmp_scores(ctx, summ, TP, R, Gn, f"{where}[total]")
    if undefined:
        ctx.cls(f"{where}_label_scores_undefined", undefined)
    if undefined_total:
        ctx.cls(f"{where}_total_scores_undefined", undefined_total)
    if all_correct:
        ctx.cls(f"{where}_label_all_correct", all_correct)
    if Gn > 0 and TP == Gn and R == Gn:
        ctx.cls(f"{where}_all_correct")
    if TP == 0 and R > 0 and Gn > 0:
        ctx.cls(f"{where}_none_correct")
    if 0 < TP < R:
        ctx.cls(f"{where}_partly_correct")


# ------------------------------------------------------------------------------------------------
# (1) exhaustive enumeration of the small instances
# ------------------------------------------------------------------------------------------------


def _sides(fam, kmax):
    slots = [(c, u) for c in CAMS2 for u in UUIDS3]
    labs = SMALL_LABELS[fam]
    out = []
    for k in range(kmax + 1):
        for comb in itertools.combinations(slots, k):
            for ls in itertools.product(labs, repeat=k):
                out.append([[c, u, lab] for (c, u), lab in zip(comb, ls)])
    return out


def gen_small(tier):
    ke = 2 if tier == "quick" else 3
    for fam in ("tl", "autoware"):
        es, gs = _sides(fam, ke), _sides(fam, 3)
        gs_rev = [list(reversed(g)) for g in gs]
        targets = SMALL_LABELS[fam]
        for uf in (False, True) if fam == "tl" else (False,):
            for a, e in enumerate(es):
                for b in range(len(gs)):
                    g = gs_rev[b] if (a + b) % 2 else gs[b]
                    yield {"fam": fam, "uf": uf, "targets": targets, "frames": [{"est": e, "gt": g}]}


@CHECK.enum("small_instances", gen_small)
def small_instances(ctx, d):
    fam, uf, fr = d["fam"], d["uf"], d["frames"][0]
    E, G = fr["est"], fr["gt"]
    out = _match_and_check(ctx, fam, uf, E, G)
    if out is None or out[3] is None:
        return
    if any(t[2] == "false_positive" for t in G):
        # pairing is defined for such frames (an FP-annotated ground truth is never label-equal to an estimate); how a pair
        # with it should be COUNTED is not said by the statement (the library counts it label-correct): scores not asserted
        ctx.cls("has_fp_annotated_gt(pairing only)")
        return
    est, gt, res, rows = out
    _score_frame(ctx, fam, d["targets"], E, G, gt, res, rows)


# ------------------------------------------------------------------------------------------------
# (2) + (3) Hypothesis
# ------------------------------------------------------------------------------------------------


@st.composite
def _frame(draw, labels, cams, uuids, max_n, stray=None):
    """GTs on distinct (camera, uuid) slots; estimates built relative to GTs; both shuffled.
    `stray`: a label outside the target list that estimates may still carry (`unknown`: the manager's filter lets
    unknown-labelled estimates through when unknown is not a target)."""
    slots = [(c, u) for c in cams for u in uuids]
    n_gt = draw(GEN.counts(0, min(max_n, len(slots))))
    gslots = draw(st.permutations(slots))[:n_gt]
    lab = st.sampled_from(labels)
    G = [[c, u, draw(lab)] for (c, u) in gslots]
    if G and draw(st.integers(0, 5)) == 0:
        # a ground truth annotated `false_positive` (something that must not be reported): it has no equally-labelled
        # estimate, so it can only be paired through its uuid
        G[draw(st.integers(0, len(G) - 1))][2] = "false_positive"
    mode = draw(st.sampled_from(["mixed", "mixed", "mixed", "mixed", "faithful", "labels_only", "uuids_only"]))
    menu = {
        "mixed": ["same", "same", "flip", "flip", "move", "move", "flip_move", "camera", "drop"],
        "faithful": ["same"],
        "labels_only": ["same", "flip", "flip"],
        "uuids_only": ["same", "move", "move"],
    }[mode]
    E, used = [], set()

    def other(pool, cur):
        rest = [x for x in pool if x != cur]
        return draw(st.sampled_from(rest)) if rest else cur

    def put(c, u, l):
        if (c, u) not in used and len(E) < max_n:
            used.add((c, u))
            E.append([c, u, l])

    for c, u, l in G:
        act = draw(st.sampled_from(menu))
        if act == "drop":
            continue
        if l == "false_positive":
            l = draw(lab)  # estimates never carry the annotation-only label
        if act in ("flip", "flip_move"):
            l = stray if stray is not None and draw(st.integers(0, 3)) == 0 else other(labels, l)
        if act in ("move", "flip_move"):
            u = other(uuids, u)
        if act == "camera":
            c = other(cams, c)
        put(c, u, l)
    if mode == "mixed":
        for _ in range(draw(st.integers(0, 3))):
            c, u = draw(st.sampled_from(slots))
            put(c, u, draw(lab))
    if mode in ("mixed", "uuids_only") and len(E) >= 2:
        # exchange the uuids of two estimates of one camera (uniqueness per camera is preserved)
        for _ in range(draw(st.integers(0, 2))):
            i = draw(st.integers(0, len(E) - 1))
            j = draw(st.integers(0, len(E) - 1))
            if i != j and E[i][0] == E[j][0]:
                E[i][1], E[j][1] = E[j][1], E[i][1]
    E = list(draw(st.permutations(E)))
    return {"est": E, "gt": G}


@st.composite
def _case(draw, frames):
    fam = draw(st.sampled_from(["tl", "tl", "autoware"]))
    uf = draw(st.booleans()) if fam == "tl" else False
    allv = ALL_LABELS[fam]
    kind = draw(st.sampled_from(["few", "few", "few", "subset", "all", "single"]))
    if kind == "all":
        targets = list(allv)
    else:
        lo, hi = {"single": (1, 1), "few": (2, 3), "subset": (2, len(allv))}[kind]
        targets = draw(st.lists(st.sampled_from(allv), min_size=lo, max_size=hi, unique=True))
    # labels actually used: a few of the targets, so that label coincidences are frequent
    labels = draw(st.lists(st.sampled_from(targets), min_size=min(2, len(targets)), max_size=4, unique=True))
    cams = draw(st.lists(st.sampled_from(CAMS4), min_size=1, max_size=4, unique=True))
    nu = draw(st.sampled_from([1, 2, 3, 3, 4, 6, 8]))
    uuids = [f"u{k}" for k in range(1, nu + 1)]
    nf = draw(st.integers(1, frames))
    stray = "unknown" if "unknown" not in targets and draw(st.booleans()) else None
    fs = [draw(_frame(labels, cams, uuids, 12, stray)) for _ in range(nf)]
    outside = [x for x in allv if x not in targets and x not in ("unknown", "false_positive")]
    if outside and draw(st.integers(0, 3)) == 0:
        # objects handed over unfiltered: a correctly classified pair whose label is not evaluated (outside the target list)
        # belongs to no target label's counts
        lab = draw(st.sampled_from(outside))
        for f in fs:
            if draw(st.booleans()):
                f["gt"].append([cams[0], "ux", lab])
                f["est"].append([cams[0], "ux", lab])
    return {"fam": fam, "uf": uf, "targets": targets, "frames": fs}


@CHECK.given("random_instances", lambda tier: _case(1), quick=400, thorough=48000)
def random_instances(ctx, d):
    fam, uf, fr = d["fam"], d["uf"], d["frames"][0]
    E, G = fr["est"], fr["gt"]
    ctx.cls(f"fam_{fam}" + ("_uuid_first" if uf else ""))
    ctx.cls("size_%s" % ("0" if not E or not G else "small" if max(len(E), len(G)) <= 3 else "large"))
    out = _match_and_check(ctx, fam, uf, E, G)
    if out is None or out[3] is None:
        return
    if any(t[2] == "false_positive" for t in G):
        ctx.cls("has_fp_annotated_gt(pairing only)")  # see small_instances
        return
    est, gt, res, rows = out
    _score_frame(ctx, fam, d["targets"], E, G, gt, res, rows)


@CHECK.given("metrics_scenes", lambda tier: _case(3), quick=250, thorough=32000)
def metrics_scenes(ctx, d):
    """Frame scores, scene scores (nested lists, summed GT numbers) and the direct single-metric form."""
    L = _lib()
    fam, uf, targets = d["fam"], d["uf"], d["targets"]
    tl = [L["lab"][fam][t] for t in targets]
    ctx.cls(f"frames_{len(d['frames'])}")
    ctx.cls(f"targets_{min(len(targets), 4)}{'+' if len(targets) >= 4 else ''}")
    all_results = {t: [[]] for t in tl}  # get_scene_result: {label: [[]]} then one list per frame
    all_num = {t: 0 for t in tl}
    total = {t: [0, 0, 0] for t in targets}
    pooled_res, pooled_gt, outside_tp = [], 0, 0
    if any(t[2] == "false_positive" for fr in d["frames"] for t in fr["gt"]):
        for fr in d["frames"]:
            _match_and_check(ctx, fam, uf, fr["est"], fr["gt"])
        ctx.cls("has_fp_annotated_gt(pairing only)")
        return
    for fr in d["frames"]:
        E, G = fr["est"], fr["gt"]
        out = _match_and_check(ctx, fam, uf, E, G)
        if out is None or out[3] is None:
            return
        est, gt, res, rows = out
        sc = _score_frame(ctx, fam, targets, E, G, gt, res, rows)
        if sc is None:
            return
        rd, nd, cnt = sc
        for t in tl:
            all_results[t].append(rd[t])
            all_num[t] += nd[t]
        for t in targets:
            for k in range(3):
                total[t][k] += cnt[t][k]
        pooled_res.append(res)
        pooled_gt += len(gt)
        # label-correct pairs whose label is not a target: counted by no per-label score, but by the all-results form below
        outside_tp += sum(1 for i, j in rows if j is not None and E[i][2] == G[j][2] and E[i][2] not in targets)
    score = None
    with ctx.under_test("ClassificationMetricsScore(scene)"):
        score = L["Score"](object_results_dict=all_results, num_ground_truth_dict=all_num, target_labels=tl)
        summ = score._summarize()
    if score is not None:
        _check_score(ctx, score, summ, targets, total, "scene")
    # the form used by the repository's own test: one ClassificationAccuracy over all results of the frames
    acc = None
    with ctx.under_test("ClassificationAccuracy(all results)"):
        acc = L["Acc"](object_results=pooled_res, num_ground_truth=pooled_gt, target_labels=tl)
        got = acc.results
    if acc is not None:
        # every result handed over is either a TP or an FP here — including an unknown-labelled estimate without ground
        # truth, which belongs to no label bucket of the per-label form
        R = sum(len(r) for r in pooled_res)
        TP = sum(v[1] for v in total.values()) + outside_tp
        ctx.require(
            got.get("predict_num") == R and acc.num_tp == TP and acc.num_fp == R - TP,
            "direct:counts",
            lambda: f"predict_num/num_tp/num_fp = {got.get('predict_num')}/{acc.num_tp}/{acc.num_fp}, pairs give {R}/{TP}/{R - TP}",
        )
        _cmp_scores(ctx, tuple(got.get(n) for n in NAMES), TP, R, pooled_gt, "direct[total]")
