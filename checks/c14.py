"""C14 — label names convert totally, case-insensitively and consistently with merging.

Oracle: vlib/ref_label.py (golden name -> label tables transcribed from docs/en/perception/label.md and
the enum definitions; merge map; registered names per (family, task class)).  The library's own pair
lists are never used as the expectation.

Sub-checks
  enum_definitions   the transcribed enum member lists are the library's (otherwise the oracle is stale:
                     harness error, not a verdict)
  registered_names   exhaustive: every name of either family (+ a few foreign/extra names) x 9 spellings
                     x both families x merge on/off x nine tasks x count_label_number on/off x the three
                     entry points (convert_label().label, convert_name, set_target_lists)
  canonical_images   every label the (family, task, merge) table can produce -- by the reference table and
                     as observed from the library -- is the image of its own canonical name (its value)
  merge_consistency  exhaustive: convert_merge(n) == MERGE(convert_nomerge(n)) for every name / spelling
  strings            Hypothesis: unicode text, 1-edit near-misses, random case masks, padded names,
                     unicode case look-alikes: never raises, unregistered -> UNKNOWN, case variants agree
                     with the lower-cased name, entry points agree, merge law
  config             Hypothesis: PerceptionEvaluationConfig built from generated target-label name lists:
                     target_labels == reference images == what objects with those names receive, every
                     per-label list of filtering_params has len(target_labels) entries
"""
import unicodedata

from hypothesis import strategies as st

from vlib import ref_label as R
from vlib.harness import Check, HarnessError, proc_tmp

CHECK = Check(
    "C14",
    rule=(
        "registered_names/merge_consistency: every (family, task, merge, name) with name from the union of all "
        "documented/enum-derived names of both families plus a few unregistered probes, enumerated completely, "
        "each in 9 spellings (lower, UPPER, Title, capitalize, swapcase-of-title, two alternating masks, "
        "first-half-upper, every-third-upper); non-trivial = the name is registered for that family and task "
        "class (distinct by descriptor). canonical_images: every (family, task, merge). strings: Hypothesis "
        "strings; non-trivial = the string is not itself a lower-case registered name (unregistered string or a "
        "proper case variant). config: Hypothesis configurations; non-trivial = at least one explicitly named "
        "target label. Distinct by descriptor hash."
    ),
    assumptions=[
        "oracle table = docs/en/perception/label.md + enum definitions (vlib/ref_label.py rules R1-R5); names on "
        "which that table and the library disagree are listed in ref_label.DISCREPANCIES and both outcomes are accepted",
        "'ignores letter case' is asserted strictly for strings whose str.lower() only changes A-Z; for strings with "
        "non-ASCII case mappings (Kelvin sign, long s, full-width letters) any of lower()/casefold()/NFKC readings is accepted",
        "merge flag is the identity on traffic-light labels",
        "config: prediction is excluded (constructor raises NotImplementedError by design); traffic_light prefix only with 2D tasks",
    ],
    design_ref="§6 C14",
)

MERGES = (False, True)


# ------------------------------------------------------------------------------------------------
# helpers
# ------------------------------------------------------------------------------------------------


def _lib():
    from perception_eval.common import label as L

    return L


def _enum_cls(family):
    L = _lib()
    return L.AutowareLabel if family == "autoware" else L.TrafficLightLabel


def _member(family, value):
    """The member whose value is the documented canonical name `value` (the statement's "own canonical name": the names of
    vlib/ref_label.py, taken from the documentation's label tables)."""
    from vlib.harness import PropertyViolation

    try:
        return _enum_cls(family)(value)
    except ValueError:
        raise PropertyViolation(f"C14:canonical-name-not-a-member-value:{family}:{value}", f"the {family} label family has no member whose value is the documented canonical name {value!r}") from None


def _conv(task, merge, family, count=False):
    return _lib().LabelConverter(task, merge, family, count)


def _val(x):
    return getattr(x, "value", repr(x))


def ascii_lower(s):
    return "".join(chr(ord(c) + 32) if "A" <= c <= "Z" else c for c in s)


def spellings(name):
    n = len(name)
    out = [
        name.lower(),
        name.upper(),
        name.title(),
        name.capitalize(),
        name.title().swapcase(),
        "".join(c.upper() if i % 2 == 0 else c for i, c in enumerate(name)),
        "".join(c.upper() if i % 2 == 1 else c for i, c in enumerate(name)),
        name[: n // 2].upper() + name[n // 2 :],
        "".join(c.upper() if i % 3 == 2 else c for i, c in enumerate(name)),
    ]
    res = []
    for s in out:
        if s not in res:
            res.append(s)
    return res


def _keys(s):
    """Lower-cased readings of s; one element for strings with ASCII-only case changes."""
    ks = [s.lower()]
    for k in (ascii_lower(s), s.casefold(), unicodedata.normalize("NFKC", s).lower()):
        if k not in ks:
            ks.append(k)
    return ks


def _allowed(family, task, merge, s):
    """(allowed label values, status of the primary reading, simple?)"""
    ks = _keys(s)
    derived, allowed, status = R.expect(family, task, merge, ks[0])
    allowed = list(allowed)
    for k in ks[1:]:
        for a in R.expect(family, task, merge, k)[1]:
            if a not in allowed:
                allowed.append(a)
    return allowed, status, len(ks) == 1


_MISSING = object()


def _convert_all(ctx, conv, s, what):
    """The three entry points on one string; returns the label of convert_label (or None after a known finding)."""
    L = _lib()
    lab = nm = tl = _MISSING
    with ctx.under_test(f"convert_label:{what}"):
        lab = conv.convert_label(s)
    with ctx.under_test(f"convert_name:{what}"):
        nm = conv.convert_name(s)
    with ctx.under_test(f"set_target_lists:{what}"):
        tl = L.set_target_lists([s], conv)
    if lab is _MISSING or nm is _MISSING or tl is _MISSING:
        return None  # a crash that is a listed known finding: nothing further to compare
    got = getattr(lab, "label", None)
    ctx.require(
        isinstance(got, conv.label_type),
        f"not-a-label:{what}",
        lambda: f"convert_label({s!r}).label = {got!r} is not a {conv.label_type.__name__}",
    )
    ctx.require(lab.name == s, "label-name-not-preserved", lambda: f"convert_label({s!r}).name = {lab.name!r}")
    ctx.require(
        nm is got,
        f"entry-points-differ:convert_name:{what}",
        lambda: f"convert_name({s!r}) = {nm!r} but convert_label({s!r}).label = {got!r}",
    )
    ctx.require(
        isinstance(tl, list) and len(tl) == 1 and tl[0] is got,
        f"entry-points-differ:set_target_lists:{what}",
        lambda: f"set_target_lists([{s!r}]) = {tl!r} but convert_label({s!r}).label = {got!r}",
    )
    return got


# ------------------------------------------------------------------------------------------------
# 0. the transcribed enums are the library's
# ------------------------------------------------------------------------------------------------


def gen_enums(tier):
    yield {"enum": "AutowareLabel"}
    yield {"enum": "TrafficLightLabel"}
    yield {"enum": "EvaluationTask"}


@CHECK.enum("enum_definitions", gen_enums, exhaustive=False)
def enum_definitions(ctx, d):
    from perception_eval.common.evaluation_task import EvaluationTask

    L = _lib()
    lib, ref = {
        "AutowareLabel": (L.AutowareLabel, R.AUTOWARE_MEMBERS),
        "TrafficLightLabel": (L.TrafficLightLabel, R.TRAFFIC_LIGHT_MEMBERS),
        "EvaluationTask": (EvaluationTask, R.TASKS),
    }[d["enum"]]
    got = tuple(m.value for m in lib)
    if got != tuple(ref):
        raise HarnessError(f"vlib/ref_label.py is stale: {d['enum']} values are {got}, transcribed {tuple(ref)}")
    for m in lib:  # documented: str(label) is its value
        ctx.require(str(m) == m.value, f"str-not-value:{d['enum']}", f"str({m!r}) = {str(m)!r}")


# ------------------------------------------------------------------------------------------------
# 1. exhaustive: registered names x spellings x entry points
# ------------------------------------------------------------------------------------------------


def gen_names(tier):
    names = R.all_names()
    for family in R.FAMILIES:
        for task in R.TASKS:
            for merge in MERGES:
                for name in names:
                    yield {"family": family, "task": task, "merge": merge, "name": name}


@CHECK.enum("registered_names", gen_names)
def registered_names(ctx, d):
    L = _lib()
    family, task, merge, name = d["family"], d["task"], d["merge"], d["name"]
    tc = R.task_class(family, task)
    derived, allowed_vals, status = R.expect(family, task, merge, name)
    allowed = [_member(family, v) for v in allowed_vals]
    ctx.mark_nontrivial(R.is_registered(family, task, name))
    ctx.cls(f"{family}/{tc}:{status}")
    sp = spellings(name)
    what = f"{family}/{tc}"
    for count in (False, True):
        conv = _conv(task, merge, family, count)
        results = []
        for s in sp:
            got = _convert_all(ctx, conv, s, what)
            if got is None:
                return
            results.append(got)
            ctx.require(
                any(got is a for a in allowed),
                f"wrong-label:{what}:{name}",
                lambda: (
                    f"LabelConverter({task!r}, merge={merge}, {family!r}, count_label_number={count}).convert_label({s!r})"
                    f".label = {got!r}; reference ({status}): {' or '.join(allowed_vals)}"
                ),
            )
            ctx.require(
                got is results[0],
                f"case-variant-differs:{what}",
                lambda: f"{s!r} -> {got!r} but {sp[0]!r} -> {results[0]!r} (task {task}, merge {merge}, count {count})",
            )
        with ctx.under_test(f"set_target_lists:{what}"):
            tl = L.set_target_lists(list(sp), conv)
        ctx.require(
            isinstance(tl, list) and len(tl) == len(sp) and all(a is b for a, b in zip(tl, results)),
            f"target-list-differs:{what}",
            lambda: f"set_target_lists({sp!r}) = {tl!r}; per-name convert_label gives {results!r}",
        )
        if len(allowed) > 1 and results:
            ctx.cls(f"discrepancy:{what}:{name}->{_val(results[0])}")
    # the enum-or-string task argument does not matter (the traffic-light table is chosen by the task)
    from perception_eval.common.evaluation_task import EvaluationTask

    with ctx.under_test(f"LabelConverter(enum task):{what}"):
        got_e = _conv(EvaluationTask(task), merge, family).convert_name(name)
    got_s = _conv(task, merge, family).convert_name(name)
    ctx.require(
        got_e is got_s,
        f"task-spelling-differs:{what}",
        lambda: f"{name!r}: task given as enum -> {got_e!r}, as string -> {got_s!r}",
    )


# ------------------------------------------------------------------------------------------------
# 2. producible labels are images of their own names
# ------------------------------------------------------------------------------------------------


def gen_tables(tier):
    for family in R.FAMILIES:
        for task in R.TASKS:
            for merge in MERGES:
                yield {"family": family, "task": task, "merge": merge}


@CHECK.enum("canonical_images", gen_tables)
def canonical_images(ctx, d):
    family, task, merge = d["family"], d["task"], d["merge"]
    tc = R.task_class(family, task)
    what = f"{family}/{tc}"
    ctx.mark_nontrivial()
    conv = _conv(task, merge, family)
    # (i) labels of the reference table
    ref_images = R.images(family, task, merge)
    ctx.cls(f"{what}:ref_images", len(ref_images))
    for v in ref_images:
        m = _member(family, v)
        got = _convert_all(ctx, conv, v, what)
        if got is None:
            continue
        ctx.require(
            got is m,
            f"label-not-image-of-own-name:{what}:{v}",
            lambda: f"task {task}, merge {merge}: reference table produces {m!r} but convert({v!r}) = {got!r}",
        )
    # (ii) labels the library is observed to produce (over every known name, and its advertised table)
    produced = []
    for n in R.all_names():
        with ctx.under_test(f"convert_name:{what}"):
            g = conv.convert_name(n)
        if g not in produced:
            produced.append(g)
    for info in getattr(conv, "label_infos", []):
        if info.label not in produced:
            produced.append(info.label)
    ctx.cls(f"{what}:observed_images", len(produced))
    for m in produced:
        got = _convert_all(ctx, conv, m.value, what)
        if got is None:
            continue
        ctx.require(
            got is m,
            f"label-not-image-of-own-name:{what}:{_val(m)}",
            lambda: f"task {task}, merge {merge}: the converter produces {m!r} but convert({m.value!r}) = {got!r}",
        )
    # every image is a label the reference table can produce (or an accepted discrepancy image)
    ok_vals = set(ref_images)
    for n, (other, _) in R.DISCREPANCIES.get((family, tc), {}).items():
        ok_vals.add(R.merge_label(other) if merge else other)
    for m in produced:
        ctx.require(
            m.value in ok_vals,
            f"unexpected-image:{what}:{_val(m)}",
            lambda: f"task {task}, merge {merge}: converter produces {m!r}; reference images: {sorted(ok_vals)}",
        )


# ------------------------------------------------------------------------------------------------
# 3. merge consistency, exhaustive part
# ------------------------------------------------------------------------------------------------


def gen_merge(tier):
    names = R.all_names()
    for family in R.FAMILIES:
        for task in R.TASKS:
            for name in names:
                yield {"family": family, "task": task, "name": name}


def _merge_law(ctx, family, task, s, what):
    plain = _conv(task, False, family)
    merged = _conv(task, True, family)
    with ctx.under_test(f"convert_name:{what}"):
        a = plain.convert_name(s)
        b = merged.convert_name(s)
    with ctx.under_test(f"convert_label:{what}"):
        a2 = plain.convert_label(s).label
        b2 = merged.convert_label(s).label
    exp = _member(family, R.merge_label(a.value))
    ctx.require(
        b is exp,
        f"merge-inconsistent:{what}",
        lambda: f"task {task}: {s!r} -> {a!r} without merging, so merged image should be {exp!r}; got {b!r}",
    )
    exp2 = _member(family, R.merge_label(a2.value))
    ctx.require(
        b2 is exp2,
        f"merge-inconsistent:{what}",
        lambda: f"task {task}: convert_label({s!r}) -> {a2!r} without merging, merged should be {exp2!r}; got {b2!r}",
    )
    return a, b


@CHECK.enum("merge_consistency", gen_merge)
def merge_consistency(ctx, d):
    family, task, name = d["family"], d["task"], d["name"]
    tc = R.task_class(family, task)
    what = f"{family}/{tc}"
    ctx.mark_nontrivial(R.is_registered(family, task, name))
    changed = False
    for s in spellings(name):
        a, b = _merge_law(ctx, family, task, s, what)
        changed = changed or (a is not b)
    ctx.cls(f"{family}:{'merged_away' if changed else 'unchanged'}")


# ------------------------------------------------------------------------------------------------
# 4. Hypothesis: arbitrary strings, near misses, case masks
# ------------------------------------------------------------------------------------------------

LOOKALIKE = {"k": "K", "s": "ſ", "i": "İ", "c": "ｃ", "r": "Ｒ", "a": "Ａ"}
EDIT_CHARS = "abe_.- 0Zsé"


def strat_strings(tier):
    names = [n for n in R.all_names() if n]
    name = st.sampled_from(names)

    @st.composite
    def cased(draw):
        w = draw(name)
        mask = draw(st.lists(st.booleans(), min_size=len(w), max_size=len(w)))
        return "".join(c.upper() if b else c for c, b in zip(w, mask))

    @st.composite
    def edited(draw):
        w = draw(st.one_of(name, cased()))
        op = draw(st.sampled_from(["del", "ins", "sub", "swap", "pad", "dup_sep", "lookalike"]))
        i = draw(st.integers(0, len(w) - 1))
        if op == "del":
            return w[:i] + w[i + 1 :]
        if op == "ins":
            return w[:i] + draw(st.sampled_from(EDIT_CHARS)) + w[i:]
        if op == "sub":
            return w[:i] + draw(st.sampled_from(EDIT_CHARS)) + w[i + 1 :]
        if op == "swap":
            return w[:i] + w[i + 1 : i + 2] + w[i : i + 1] + w[i + 2 :]
        if op == "pad":
            return draw(st.sampled_from([" " + w, w + " ", w + "\n", "\t" + w, w + ".", "." + w, w + "\x00"]))
        if op == "dup_sep":
            return w.replace("_", "__", 1) if "_" in w else w.replace(".", "_", 1) if "." in w else w + "_"
        idx = [j for j, c in enumerate(w) if c.lower() in LOOKALIKE]
        if not idx:
            return w + "K"
        j = idx[draw(st.integers(0, len(idx) - 1))]
        return w[:j] + LOOKALIKE[w[j].lower()] + w[j + 1 :]

    s = st.one_of(
        st.text(max_size=24),
        st.text(alphabet=st.characters(min_codepoint=32, max_codepoint=126), max_size=30),
        edited(),
        edited(),
        cased(),
    )
    return st.fixed_dictionaries(
        {
            "family": st.sampled_from(R.FAMILIES),
            "task": st.sampled_from(R.TASKS),
            "merge": st.booleans(),
            "count": st.booleans(),
            "s": s,
        }
    )


@CHECK.given("strings", strat_strings, quick=2500, thorough=160000)
def strings(ctx, d):
    family, task, merge, s = d["family"], d["task"], d["merge"], d["s"]
    tc = R.task_class(family, task)
    what = f"{family}/{tc}"
    allowed_vals, status, simple = _allowed(family, task, merge, s)
    allowed = [_member(family, v) for v in allowed_vals]
    low = s.lower()
    is_reg = R.is_registered(family, task, low)
    ctx.mark_nontrivial(not (is_reg and s == low))
    if not simple:
        ctx.cls("unicode_case_ambiguous")
    elif is_reg:
        ctx.cls("registered_exact" if s == low else "registered_case_variant")
    else:
        near = any(_edit1(low, n) for n in R.registered_names(family, task))
        ctx.cls("near_miss" if near else "unregistered_other")
    conv = _conv(task, merge, family, d["count"])
    got = _convert_all(ctx, conv, s, what)
    if got is None:
        return
    sig = f"wrong-label:{what}:{low}" if is_reg else f"unregistered-not-unknown:{what}"
    ctx.require(
        any(got is a for a in allowed),
        sig,
        lambda: f"task {task}, merge {merge}: convert({s!r}) = {got!r}; reference ({status}): {' or '.join(allowed_vals)}",
    )
    if simple:
        variants = [low]
        for v in (s.upper(), s.swapcase(), s.title()):
            if v.lower() == low and ascii_lower(v) == low and v not in variants and v != s:
                variants.append(v)
        for v in variants:
            with ctx.under_test(f"convert_name:{what}"):
                gv = conv.convert_name(v)
            ctx.require(
                gv is got,
                f"case-variant-differs:{what}",
                lambda: f"task {task}, merge {merge}: {s!r} -> {got!r} but its case variant {v!r} -> {gv!r}",
            )
    _merge_law(ctx, family, task, s, what)


def _edit1(a, b):
    """Levenshtein/transposition distance exactly 1."""
    if a == b:
        return False
    la, lb = len(a), len(b)
    if abs(la - lb) > 1:
        return False
    i = 0
    while i < min(la, lb) and a[i] == b[i]:
        i += 1
    if la == lb:
        if a[i + 1 :] == b[i + 1 :]:
            return True
        return a[i + 2 :] == b[i + 2 :] and a[i : i + 2] == b[i : i + 2][::-1]
    if la < lb:
        a, b = b, a
    return a[i + 1 :] == b[i:]


# ------------------------------------------------------------------------------------------------
# 5. configuration: target_labels and per-label lists line up
# ------------------------------------------------------------------------------------------------

TASKS_3D = ("detection", "tracking", "fp_validation")
TASKS_2D = ("detection2d", "tracking2d", "classification2d", "fp_validation2d")


def strat_config(tier):
    @st.composite
    def cfg(draw):
        family = draw(st.sampled_from(R.FAMILIES))
        task = draw(st.sampled_from(TASKS_2D if family == "traffic_light" else TASKS_3D + TASKS_2D))
        merge = draw(st.booleans())
        reg = [n for n in R.registered_names(family, task)]
        mode = draw(st.sampled_from(["names"] * 8 + ["none", "empty"]))
        if mode == "names":
            base = draw(st.lists(st.sampled_from(reg), min_size=1, max_size=6, unique=draw(st.booleans())))
            names = []
            for w in base:
                how = draw(st.sampled_from(["lower", "upper", "title", "mask"]))
                if how == "upper":
                    w = w.upper()
                elif how == "title":
                    w = w.title()
                elif how == "mask":
                    mask = draw(st.lists(st.booleans(), min_size=len(w), max_size=len(w)))
                    w = "".join(c.upper() if b else c for c, b in zip(w, mask))
                names.append(w)
            if draw(st.integers(0, 9)) == 0:
                names.insert(draw(st.integers(0, len(names))), draw(st.sampled_from(["foo", "Cyclist", "vehicle", "amber"])))
            n = len(names)
        else:
            names = None if mode == "none" else []
            n = len(R.MEMBERS[family])
        num = st.floats(0.0, 200.0, allow_nan=False, width=32).map(float)

        def per_label(required=False, ints=False):
            kinds = ["scalar", "list"] + ([] if required else ["absent"])
            kind = draw(st.sampled_from(kinds))
            el = st.integers(0, 20) if ints else num
            if kind == "absent":
                return None
            if kind == "scalar":
                return draw(el)
            return draw(st.lists(el, min_size=n, max_size=n))

        e = {}
        is3d = task in TASKS_3D
        rng = draw(st.sampled_from(["xy", "dist"] if is3d else ["none", "none", "xy", "dist"]))
        if rng == "xy":
            e["max_x_position"] = per_label(True)
            e["max_y_position"] = per_label(True)
        elif rng == "dist":
            e["max_distance"] = per_label(True)
            e["min_distance"] = draw(st.floats(0.0, 5.0, allow_nan=False, width=32).map(float))
        v = per_label()
        if v is not None:
            e["max_matchable_radii"] = v
        v = per_label(required=(task == "detection"), ints=True)
        if v is not None:
            e["min_point_numbers"] = v
        v = per_label()
        if v is not None:
            e["confidence_threshold"] = v
        if draw(st.booleans()):
            e["count_label_number"] = draw(st.booleans())
        return {"family": family, "task": task, "merge": merge, "names": names, "extra": e}

    return cfg()


PER_LABEL_KEYS = {
    "max_x_position_list": "max_x_position",
    "max_y_position_list": "max_y_position",
    "max_distance_list": "max_distance",
    "min_distance_list": "min_distance",
    "max_matchable_radii": "max_matchable_radii",
    "min_point_numbers": "min_point_numbers",
    "confidence_threshold_list": "confidence_threshold",
}


@CHECK.given("config", strat_config, quick=700, thorough=48000)
def config(ctx, d):
    from perception_eval.config import PerceptionEvaluationConfig

    family, task, merge, names, extra = d["family"], d["task"], d["merge"], d["names"], d["extra"]
    tc = R.task_class(family, task)
    what = f"{family}/{tc}"
    ctx.mark_nontrivial(bool(names))
    ctx.cls(f"{task}:{family}")
    ctx.cls("names:" + ("explicit" if names else "all_labels"))
    e = dict(evaluation_task=task, label_prefix=family, merge_similar_labels=merge, **extra)
    if names is not None:
        e["target_labels"] = list(names)
    frame = "base_link" if task in TASKS_3D else "cam_front"
    with ctx.under_test(f"PerceptionEvaluationConfig:{task}"):
        cfg = PerceptionEvaluationConfig(
            dataset_paths=["/nonexistent"],
            frame_id=frame,
            result_root_directory=proc_tmp(),
            evaluation_config_dict=e,
        )
    got = cfg.target_labels
    if names:
        ctx.require(
            isinstance(got, list) and len(got) == len(names),
            f"config-target-labels-length:{what}",
            lambda: f"target_labels {names!r} -> {got!r}",
        )
        dup = len({_val(g) for g in got}) < len(got)
        ctx.cls("images:" + ("with_duplicates" if dup else "distinct"))
        for i, s in enumerate(names):
            allowed_vals, status, _ = _allowed(family, task, merge, s)
            ctx.require(
                any(got[i] is _member(family, v) for v in allowed_vals),
                f"config-target-label-wrong:{what}:{s.lower()}",
                lambda: f"task {task}, merge {merge}: target_labels[{i}] for {s!r} is {got[i]!r}; reference: {' or '.join(allowed_vals)}",
            )
            # the label an object named s receives through the configuration's converter
            with ctx.under_test(f"convert_label:{what}"):
                obj = cfg.label_converter.convert_label(s).label
            ctx.require(
                obj is got[i],
                f"config-target-vs-object-label:{what}",
                lambda: f"task {task}, merge {merge}: target {s!r} resolved to {got[i]!r} but an object named {s!r} gets {obj!r}",
            )
    else:
        exp = [_member(family, v) for v in R.MEMBERS[family]]
        ctx.require(
            isinstance(got, list) and len(got) == len(exp) and all(a is b for a, b in zip(got, exp)),
            f"config-all-labels:{what}",
            lambda: f"no target label given: expected every {family} label in definition order, got {got!r}",
        )
    n = len(got)
    fp = cfg.filtering_params
    ctx.require(fp.get("target_labels") is not None and list(fp["target_labels"]) == list(got), "config-filter-target-labels", lambda: f"{fp.get('target_labels')!r} vs {got!r}")
    for key, src in PER_LABEL_KEYS.items():
        lst = fp.get(key)
        if src not in extra:
            ctx.require(lst is None, f"config-list-unexpected:{key}", lambda: f"{key} = {lst!r} although {src} was not given")
            continue
        ctx.require(
            isinstance(lst, list) and len(lst) == n,
            f"config-list-length:{key}",
            lambda: f"task {task}: {len(got)} target labels {got!r} but filtering_params[{key!r}] = {lst!r}",
        )
        given = extra[src]
        want = list(given) if isinstance(given, list) else [given] * n
        ctx.require(
            isinstance(lst, list) and [float(x) for x in lst] == [float(x) for x in want],
            f"config-list-values:{key}",
            lambda: f"{src} = {given!r} for {n} labels became {lst!r}",
        )
    mc = cfg.metrics_config
    ctx.require(list(mc.target_labels) == list(got), "config-metrics-target-labels", lambda: f"{mc.target_labels!r} vs {got!r}")


# ------------------------------------------------------------------------------------------------
# one converter, many calls: each conversion depends on its own arguments only (a dataset loader converts every
# annotation through the same LabelConverter); added after a seeded change cached the fallback Label per name
# ------------------------------------------------------------------------------------------------


@st.composite
def strat_converter_histories(draw, tier="quick"):
    family = draw(st.sampled_from(list(R.FAMILIES)))
    task = draw(st.sampled_from(list(R.TASKS)))
    merge = draw(st.booleans())
    pool = sorted(R.registered_names(family, task)) + ["spaceship", "vehicle.bus.rigid", "human.pedestrian.adult", "Blue", ""]
    attrs = ["vehicle.moving", "vehicle.parked", "cycle_state.without_rider", "pedestrian_state.sitting"]
    n = draw(st.integers(2, 12 if tier == "quick" else 40))
    calls = []
    names = draw(st.lists(st.sampled_from(pool), min_size=1, max_size=4))
    for _ in range(n):
        nm = draw(st.sampled_from(names)) if draw(st.integers(0, 3)) else draw(st.sampled_from(pool))
        if nm and draw(st.integers(0, 3)) == 0:
            nm = nm.upper()
        calls.append([nm, draw(st.lists(st.sampled_from(attrs), max_size=2, unique=True)), draw(st.sampled_from(["label", "label", "name"]))])
    return {"family": family, "task": task, "merge": merge, "count": draw(st.booleans()), "calls": calls}


@CHECK.given("converter_histories", strat_converter_histories, quick=400, thorough=24000)
def converter_histories(ctx, d):
    family, task, merge = d["family"], d["task"], d["merge"]
    conv = None
    with ctx.under_test("LabelConverter()"):
        conv = _conv(task, merge, family, d["count"])
    if conv is None:
        return
    seen = {}
    repeated_unregistered = False
    for name, attrs, how in d["calls"]:
        allowed, status, simple = _allowed(family, task, merge, name)
        if how == "name":
            with ctx.under_test("convert_name (history)"):
                got = _val(conv.convert_name(name))
                ctx.require(got in allowed, "history:wrong-label", lambda: f"convert_name({name!r}) after {len(seen)} earlier calls -> {got}, allowed {allowed}")
            continue
        with ctx.under_test("convert_label (history)"):
            lab = conv.convert_label(name, list(attrs))
            got = _val(lab.label)
            ctx.require(got in allowed, "history:wrong-label", lambda: f"convert_label({name!r}) after earlier calls -> {got}, allowed {allowed}")
            ctx.require(lab.name == name, "history:wrong-name", lambda: f"convert_label({name!r}, ...).name == {lab.name!r}")
            ctx.require(
                list(lab.attributes) == list(attrs),
                "history:wrong-attributes",
                lambda: f"convert_label({name!r}, {attrs}) returned attributes {lab.attributes} (earlier calls with this name: {seen.get(name.lower())})",
            )
        if name.lower() in seen and seen[name.lower()] != attrs and "unregistered" in status:
            repeated_unregistered = True
        seen.setdefault(name.lower(), attrs)
    ctx.mark_nontrivial(len(seen) < len(d["calls"]))
    if repeated_unregistered:
        ctx.cls("unregistered_name_repeated_with_other_attributes")
