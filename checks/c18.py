"""C18 — coordinate transforms compose and invert consistently.

Reference arithmetic: vlib/ref_geom (quaternions as (w,x,y,z) tuples, rigid transforms as (t, q) pairs,
p_dst = R(q) p_src + t) plus local pure-Python 4x4 helpers for the "pose transform = product of homogeneous
matrices" oracle.  Library objects are built from JSON descriptors inside the bodies.

Argument order, as documented in the docstrings of common/transform.py:
  B.dot(A)        requires B.src == A.dst, result = "B after A", labelled src=A.src, dst=B.dst
  A.transform(B)  == B.dot(A)  (cam2ego.transform(ego2map) -> cam2map)
  A.transform(p[, q]) -> (R_A p + t_A [, q_A * q])
  TransformDict.transform(key, *args) == matrix(key).transform(*args)
"""
import itertools
import math

from hypothesis import strategies as st

from vlib import ref_geom as G
from vlib.harness import Check

CHECK = Check(
    "C18",
    rule=(
        "rigid transforms from (translation, axis, angle, quaternion sign, rotation input form) with angles incl. 0, "
        "+-pi, tiny, near-pi and translations mixing 0 / +-10 / +-120 / +-1e5 per component; rotation passed as "
        "pyquaternion.Quaternion, 4-tuple, 4-list, 4-array, 3x3 matrix, 4x4 matrix or through from_matrix; chains of "
        "2-5 distinct FrameID members composed by dot / transform(matrix) / right fold; registries of 1-4 matrices "
        "built from a single matrix, list, tuple or item assignment and queried with keys spelled as FrameID, value, "
        "lower-case, upper-case strings in tuple / list / TransformKey form and position, (position, rotation) and "
        "matrix call forms (positional and keyword); exhaustive part: every ordered FrameID pair x string spelling x "
        "key form. Non-trivial = (a transform whose quaternion has all three vector components non-zero (>1e-6) and "
        "a non-zero translation) or a chain over >= 3 frames; distinct by descriptor hash."
    ),
    assumptions=[
        "rotations are unit quaternions / orthonormal matrices up to rounding (what the loader supplies)",
        "positions: 1e-9*(1+sum|t|+|p|) absolute; rotations: sign-insensitive quaternion distance <= 1e-9, "
        "rotation-matrix entries <= 1e-9",
        "mismatched composition must raise ValueError (docstring of dot); an unregistered pair must raise KeyError "
        "or ValueError (docstring of TransformDict.transform: 'ValueError | KeyError')",
        "X->X queries: 'unchanged' is asserted on values (identity of the returned object is accepted, not required)",
        "X->X queries whose two frame spellings differ only by letter case from the member value (e.g. "
        "('BASE_LINK', FrameID.BASE_LINK)) are not asserted: unchanged input or KeyError are both accepted "
        "(no caller produces them; reported in the class histogram as identity_mixed_case:*)",
        "when both X->Y and Y->X are registered they are mutually inverse (the statement allows either to be used)",
    ],
    design_ref="§6 C18",
)

PI = math.pi
ROT_TOL = 1e-9
REL = 1e-9

ROT_FORMS = ["quat", "tuple", "list", "array4", "m3", "m4", "from_matrix"]
POSE_ROT_FORMS = ["quat", "tuple", "list", "array4", "m3"]
POS_FORMS = ["tuple", "list", "array"]
SPELLINGS = ["enum", "value", "lower", "upper"]
KEY_FORMS = ["tuple", "list", "key"]
CALLS = ["pos", "pos_kw", "pose", "pose_kw", "mat", "mat_kw"]

FRAME_NAMES = [
    "BASE_LINK", "MAP", "LIDAR_CONCAT", "LIDAR_TOP", "RADAR_FRONT", "RADAR_FRONT_RIGHT", "RADAR_FRONT_LEFT",
    "RADAR_BACK", "RADAR_BACK_RIGHT", "RADAR_BACK_LEFT", "CAM_FRONT", "CAM_FRONT_RIGHT", "CAM_FRONT_LEFT",
    "CAM_FRONT_LOWER", "CAM_BACK", "CAM_BACK_LEFT", "CAM_BACK_RIGHT", "CAM_TRAFFIC_LIGHT_NEAR",
    "CAM_TRAFFIC_LIGHT_FAR", "CAM_TRAFFIC_LIGHT",
]  # fmt: skip


# ------------------------------------------------------------------------------------------------
# reference helpers (pure Python)
# ------------------------------------------------------------------------------------------------


def _norm3(v):
    return math.sqrt(v[0] * v[0] + v[1] * v[1] + v[2] * v[2])


def _qdist(a, b):
    """Sign-insensitive distance between two (nearly unit) quaternions."""
    a, b = G.q_norm(a), G.q_norm(b)
    dm = math.sqrt(sum((x - y) ** 2 for x, y in zip(a, b)))
    dp = math.sqrt(sum((x + y) ** 2 for x, y in zip(a, b)))
    return min(dm, dp)


def _ref_q(r):
    q = G.q_from_axis_angle(r["axis"], r["angle"])
    return q if r["sign"] >= 0 else G.q_neg(q)


def _ref_tf(t):
    return (tuple(float(c) for c in t["t"]), _ref_q(t))


def _mat4(tf):
    t, q = tf
    m = G.q_to_matrix(q)
    return [m[0] + [t[0]], m[1] + [t[1]], m[2] + [t[2]], [0.0, 0.0, 0.0, 1.0]]


def _matmul4(a, b):
    return [[sum(a[i][k] * b[k][j] for k in range(4)) for j in range(4)] for i in range(4)]


IDENT = ((0.0, 0.0, 0.0), (1.0, 0.0, 0.0, 0.0))


def _general(tf):
    t, q = tf
    return _norm3(t) > 0 and all(abs(c) > 1e-6 for c in G.q_norm(q)[1:])


def _angle_class(a):
    w = G.wrap(a)
    if a == 0:
        return "zero"
    if abs(abs(w) - PI) < 1e-12:
        return "pi"
    if abs(w) < 1e-3:
        return "tiny"
    if PI - abs(w) < 1e-3:
        return "near_pi"
    return "general"


def _classify_tf(ctx, t):
    ctx.cls("angle:" + _angle_class(t["angle"]))
    ctx.cls("rform:" + t["rform"])
    n = _norm3(t["t"])
    ctx.cls("t:" + ("zero" if n == 0 else "small" if n < 50 else "typical" if n < 1000 else "large"))
    nz = sum(1 for c in t["axis"] if c != 0)
    ctx.cls(f"axis_nonzero:{nz}")
    if t["sign"] < 0:
        ctx.cls("qsign_negative")


# ------------------------------------------------------------------------------------------------
# descriptor -> library objects
# ------------------------------------------------------------------------------------------------


_BLAS_LIMITED = []


def _limit_blas_threads():
    """4x4 products/inverses: BLAS worker threads only add spinning (measured: sys time > user time, 2x wall).

    Results are unaffected. The BLAS library is only visible to threadpoolctl after its first use, hence the warm-up.
    """
    if _BLAS_LIMITED:
        return
    _BLAS_LIMITED.append(True)
    import numpy as np

    np.linalg.inv(np.eye(4)).dot(np.eye(4))
    try:
        import threadpoolctl

        threadpoolctl.threadpool_limits(1)
    except ImportError:
        pass


def _lib():
    import numpy as np

    _limit_blas_threads()
    from perception_eval.common.schema import FrameID
    from perception_eval.common.transform import HomogeneousMatrix, TransformDict, TransformKey
    from pyquaternion import Quaternion

    return np, Quaternion, FrameID, HomogeneousMatrix, TransformDict, TransformKey


def _spell(name, how):
    _, _, FrameID, _, _, _ = _lib()
    m = FrameID[name]
    if how == "enum":
        return m
    if how == "value":
        return m.value
    if how == "lower":
        return m.value.lower()
    if how == "upper":
        return m.value.upper()
    raise AssertionError(how)


def _mk_pos(p, form):
    np = _lib()[0]
    p = [float(c) for c in p]
    if all(c == int(c) and abs(c) < 1e6 for c in p) and any(c != 0 for c in p):
        # whole numbers are handed over as integers (int tuple / list / int64 array): the docs type positions as ArrayLike
        ints = [int(c) for c in p]
        return tuple(ints) if form == "tuple" else list(ints) if form == "list" else np.array(ints)
    if form == "tuple":
        return tuple(p)
    if form == "list":
        return list(p)
    if form == "array":
        return np.array(p)
    raise AssertionError(form)


def _mk_rot(q, form):
    np, Quaternion = _lib()[:2]
    if form == "quat":
        return Quaternion(q[0], q[1], q[2], q[3])
    if form == "tuple":
        return tuple(q)
    if form == "list":
        return list(q)
    if form == "array4":
        return np.array(q)
    if form == "m3":
        return np.array(G.q_to_matrix(q))
    if form == "m4":
        return np.array(_mat4(((0.0, 0.0, 0.0), q)))
    raise AssertionError(form)


def _mk_hm(t, src, dst, pform="tuple"):
    """t: transform descriptor; src/dst already spelled (FrameID or str). Library call: wrap in under_test."""
    np, _, _, HomogeneousMatrix, _, _ = _lib()
    tf = _ref_tf(t)
    if t["rform"] == "from_matrix":
        return HomogeneousMatrix.from_matrix(np.array(_mat4(tf)), src, dst)
    return HomogeneousMatrix(_mk_pos(tf[0], pform), _mk_rot(tf[1], t["rform"]), src, dst)


# ------------------------------------------------------------------------------------------------
# comparison helpers (never raise on malformed library output: they report it)
# ------------------------------------------------------------------------------------------------


def _vec3(ctx, x, what):
    v = None
    try:
        v = [float(c) for c in x]
    except (TypeError, ValueError):
        v = None
    ok = v is not None and len(v) == 3 and all(math.isfinite(c) for c in v)
    ctx.require(ok, f"{what}:not-a-3-vector", lambda: f"{what}: expected a finite 3-vector, got {x!r}")
    return v if ok else None


def _quat(ctx, x, what):
    Quaternion = _lib()[1]
    ok = isinstance(x, Quaternion)
    ctx.require(ok, f"{what}:not-a-quaternion", lambda: f"{what}: expected a Quaternion, got {type(x).__name__} {x!r}")
    return tuple(float(c) for c in x.q) if ok else None


def _req_pos(ctx, got, ref, tol, sig, what):
    v = _vec3(ctx, got, what)
    if v is None:
        return
    err = max(abs(a - b) for a, b in zip(v, ref))
    ctx.require(err <= tol, sig, lambda: f"{what}: position {v} vs reference {list(ref)} (err {err:.3e} > tol {tol:.3e})")


def _req_rot(ctx, got, ref, sig, what):
    q = _quat(ctx, got, what)
    if q is None:
        return
    n = math.sqrt(sum(c * c for c in q))
    ctx.require(abs(n - 1.0) <= 1e-9, sig + ":not-unit", lambda: f"{what}: rotation {q} has norm {n!r}")
    if n == 0:
        return
    e = _qdist(q, ref)
    ctx.require(e <= ROT_TOL, sig, lambda: f"{what}: rotation {q} vs reference {tuple(ref)} (sign-insensitive distance {e:.3e})")


def _req_label(ctx, m, src, dst, sig, what):
    FrameID = _lib()[2]
    ok = m.src is FrameID[src] and m.dst is FrameID[dst]
    ctx.require(ok, sig, lambda: f"{what}: labelled {m.src!r}->{m.dst!r}, expected {src}->{dst}")


def _req_hm(ctx, m, tf, src, dst, tol, sig, what):
    """A HomogeneousMatrix equals the reference transform tf (position, rotation, 4x4 matrix) and is labelled src->dst."""
    np, _, _, HomogeneousMatrix, _, _ = _lib()
    ok = isinstance(m, HomogeneousMatrix)
    ctx.require(ok, sig + ":not-a-matrix", lambda: f"{what}: expected HomogeneousMatrix, got {type(m).__name__}")
    if not ok:
        return
    _req_label(ctx, m, src, dst, sig + ":label", what)
    _req_pos(ctx, m.position, tf[0], tol, sig + ":position", what + ".position")
    _req_rot(ctx, m.rotation, tf[1], sig + ":rotation", what + ".rotation")
    ref = _mat4(tf)
    mat = np.asarray(m.matrix, dtype=float)
    ok = mat.shape == (4, 4)
    ctx.require(ok, sig + ":matrix-shape", lambda: f"{what}.matrix has shape {mat.shape}")
    if not ok:
        return
    err_r = max(abs(float(mat[i][j]) - ref[i][j]) for i in range(3) for j in range(3))
    err_t = max(abs(float(mat[i][3]) - ref[i][3]) for i in range(3))
    last = [float(c) for c in mat[3]]
    ctx.require(
        err_r <= ROT_TOL and err_t <= tol and last == [0.0, 0.0, 0.0, 1.0],
        sig + ":matrix",
        lambda: f"{what}.matrix differs from the reference homogeneous matrix (rot err {err_r:.3e}, transl err {err_t:.3e}, last row {last})",
    )


def _req_pose_matrix_product(ctx, got_p, got_q, tf, pose, tol, sig, what):
    """(got_p, got_q) equals the reference product M(tf) . M(pose) — independent of the quaternion-product oracle."""
    np = _lib()[0]
    q = _quat(ctx, got_q, what)
    v = _vec3(ctx, got_p, what)
    if q is None or v is None:
        return
    prod = _matmul4(_mat4(tf), _mat4(pose))
    rm = np.asarray(got_q.rotation_matrix, dtype=float)
    err_r = max(abs(float(rm[i][j]) - prod[i][j]) for i in range(3) for j in range(3))
    err_t = max(abs(v[i] - prod[i][3]) for i in range(3))
    ctx.require(
        err_r <= ROT_TOL and err_t <= tol,
        sig,
        lambda: f"{what}: differs from the product of the homogeneous matrices (rot err {err_r:.3e}, transl err {err_t:.3e}, tol {tol:.3e})",
    )


def _expect_raise(ctx, fn, exc_types, sig, what):
    """fn must raise one of exc_types. Returns the class name of the exception (or None)."""
    try:
        out = fn()
    except exc_types as e:
        return type(e).__name__
    except Exception as e:  # noqa: BLE001 -- a different exception type is reported, not swallowed
        ctx.violate(sig + ":wrong-exception", f"{what}: raised {type(e).__name__}: {e}; expected {[t.__name__ for t in exc_types]}")
        return None
    ctx.violate(sig + ":not-rejected", f"{what}: returned {out!r} instead of raising {[t.__name__ for t in exc_types]}")
    return None


def _same_value(a, b):
    """Input returned unchanged (by identity or by value)."""
    np, Quaternion = _lib()[:2]
    if a is b:
        return True
    if a is None or b is None:
        return False
    if isinstance(a, Quaternion) or isinstance(b, Quaternion):
        return isinstance(a, Quaternion) and isinstance(b, Quaternion) and bool(np.array_equal(a.q, b.q))
    try:
        return bool(np.array_equal(np.asarray(a, dtype=float), np.asarray(b, dtype=float)))
    except (TypeError, ValueError):
        return False


# ------------------------------------------------------------------------------------------------
# strategies
# ------------------------------------------------------------------------------------------------


def fl(lo, hi):
    return st.floats(lo, hi, allow_nan=False, allow_infinity=False, width=64)


def sfl(lo, hi):
    """Signed float with magnitude in [lo, hi] (Hypothesis' plain float ranges over-produce 0 and tiny values)."""
    return st.tuples(fl(lo, hi), st.sampled_from([1.0, -1.0])).map(lambda t: t[0] * t[1])


def _component():
    return st.one_of(st.just(0.0), sfl(1e-3, 10), sfl(10, 120), sfl(1e3, 1e5), fl(-1e5, 1e5))


def vec3(elem):
    return st.lists(elem, min_size=3, max_size=3)


def translations():
    zero = st.just([0.0, 0.0, 0.0])
    small = vec3(sfl(1e-3, 10))
    typical = vec3(sfl(10, 120))
    large = vec3(sfl(1e3, 1e5))
    mixed = vec3(_component())
    # whole-number translations / points (e.g. parsed from JSON or typed as ints): passed to the library as Python ints or
    # integer arrays by _mk_pos, the reference still computes with the same values
    integral = st.lists(st.integers(-60, 60), min_size=3, max_size=3).map(lambda v: [float(c) for c in v])
    return st.one_of(small, typical, large, large, mixed, mixed, zero, integral)


def axes():
    unit = st.sampled_from([[1.0, 0.0, 0.0], [0.0, 1.0, 0.0], [0.0, 0.0, 1.0], [-1.0, 0.0, 0.0], [0.0, -1.0, 0.0], [0.0, 0.0, -1.0]])
    full = vec3(sfl(0.05, 1.0))

    @st.composite
    def two(draw):
        v = draw(full)
        v[draw(st.integers(0, 2))] = 0.0
        return v

    return st.one_of(full, full, full, two(), unit)


def angles():
    special = [0.0, PI, -PI, PI / 2, -PI / 2, 1e-9, -1e-7, 1e-5, -1e-4, PI - 1e-9, PI - 1e-6, -(PI - 1e-7), PI + 1e-6, 2 * PI, 2 * PI - 1e-6, PI / 3]
    general = sfl(0.01, PI - 0.01)
    wide = sfl(PI + 0.01, 2 * PI - 0.01)
    tiny = sfl(1e-12, 1e-4)
    near_pi = st.tuples(fl(1e-12, 1e-4), st.sampled_from([1.0, -1.0])).map(lambda t: t[1] * (PI - t[0]))
    return st.one_of(general, general, general, wide, fl(-2 * PI, 2 * PI), st.sampled_from(special), st.sampled_from(special), tiny, near_pi)


def rots(forms):
    return st.fixed_dictionaries({"axis": axes(), "angle": angles(), "sign": st.sampled_from([1, -1]), "rform": st.sampled_from(forms)})


def tfs():
    return st.fixed_dictionaries(
        {"t": translations(), "axis": axes(), "angle": angles(), "sign": st.sampled_from([1, -1]), "rform": st.sampled_from(ROT_FORMS)}
    )


def points():
    integral = st.lists(st.integers(-60, 60), min_size=3, max_size=3).map(lambda v: [float(c) for c in v])
    return st.one_of(vec3(sfl(1e-3, 10)), vec3(sfl(10, 120)), vec3(sfl(1e3, 1e5)), vec3(_component()), integral)


def frame_lists(lo, hi):
    return st.lists(st.sampled_from(FRAME_NAMES), min_size=lo, max_size=hi, unique=True)


# built once: constructing strategies inside a composite on every draw dominated the run time (profiled)
S_TF = tfs()
S_POINT = points()
S_POSE_ROT = rots(POSE_ROT_FORMS)
S_FRAMES_2 = frame_lists(2, 2)
S_FRAMES_2_5 = frame_lists(2, 5)
S_SPELLING = st.sampled_from(SPELLINGS)
S_POS_FORM = st.sampled_from(POS_FORMS)
S_KEY_FORM = st.sampled_from(KEY_FORMS)
S_CALL = st.sampled_from(CALLS)
S_FRAME = st.sampled_from(FRAME_NAMES)
S_HOW = st.sampled_from(["dot", "transform", "transform_kw", "right"])
S_BOTH = st.sampled_from([False, False, False, False, True])


# ------------------------------------------------------------------------------------------------
# sub-check 1: one transform, one pose — construction, pose transform, inverse, round trips
# ------------------------------------------------------------------------------------------------


def strat_pose(tier):
    return st.fixed_dictionaries(
        {
            "A": S_TF,
            "frames": S_FRAMES_2,
            "fs": S_SPELLING,
            "tpform": S_POS_FORM,
            "p": S_POINT,
            "pform": S_POS_FORM,
            "pq": S_POSE_ROT,
        }
    )


@CHECK.given("pose", strat_pose, quick=600, thorough=96000)
def pose(ctx, d):
    np, Quaternion, FrameID, HomogeneousMatrix, TransformDict, TransformKey = _lib()
    src, dst = d["frames"]
    tf = _ref_tf(d["A"])
    p = tuple(float(c) for c in d["p"])
    pq = _ref_q(d["pq"])
    scale = _norm3(tf[0]) + _norm3(p)
    tol = REL * (1 + scale)
    _classify_tf(ctx, d["A"])
    ctx.cls("frames:" + d["fs"])
    ctx.cls("pose_rform:" + d["pq"]["rform"])
    ctx.mark_nontrivial(_general(tf))

    A = None
    with ctx.under_test("HomogeneousMatrix()"):
        A = _mk_hm(d["A"], _spell(src, d["fs"]), _spell(dst, d["fs"]), d["tpform"])
    if A is None:
        return
    _req_hm(ctx, A, tf, src, dst, 1e-12 * (1 + _norm3(tf[0])), "construct", "HomogeneousMatrix(t, r)")

    # -- pose transform vs reference rigid transform and vs product of homogeneous matrices -----
    ref_p = G.tf_apply(tf, p)
    ref_q = G.tf_apply_q(tf, pq)
    arg_p, arg_q = _mk_pos(p, d["pform"]), _mk_rot(pq, d["pq"]["rform"])
    out = {}
    with ctx.under_test("HomogeneousMatrix.transform(position)"):
        out["pos"] = A.transform(arg_p)
        out["pos_kw"] = A.transform(position=arg_p)
    with ctx.under_test("HomogeneousMatrix.transform(position, rotation)"):
        out["pose"] = A.transform(arg_p, arg_q)
        out["pose_kw"] = A.transform(position=arg_p, rotation=arg_q)
    if len(out) < 4:
        return
    for k in ("pos", "pos_kw"):
        _req_pos(ctx, out[k], ref_p, tol, "transform-position", f"A.transform({k})")
    for k in ("pose", "pose_kw"):
        r = out[k]
        ok = isinstance(r, tuple) and len(r) == 2
        ctx.require(ok, "transform-pose:not-a-pair", lambda: f"A.transform({k}) returned {r!r}")
        if not ok:
            return
        _req_pos(ctx, r[0], ref_p, tol, "transform-pose:position", f"A.transform({k})")
        _req_rot(ctx, r[1], ref_q, "transform-pose:rotation", f"A.transform({k})")
        _req_pose_matrix_product(ctx, r[0], r[1], tf, (p, pq), tol, "transform-pose:matrix-product", f"A.transform({k})")

    # -- inverse ------------------------------------------------------------------------------
    Ai = None
    with ctx.under_test("HomogeneousMatrix.inv()"):
        Ai = A.inv()
        Aii = Ai.inv()
    if Ai is None:
        return
    _req_hm(ctx, Ai, G.tf_inv(tf), dst, src, tol, "inv", "A.inv()")
    _req_hm(ctx, Aii, tf, src, dst, tol, "inv-inv", "A.inv().inv()")
    with ctx.under_test("inv(A)(A(p, q))"):
        back_p = Ai.transform(out["pos"])
        back = Ai.transform(out["pose"][0], out["pose"][1])
        forth = A.transform(*Ai.transform(arg_p, arg_q))
    _req_pos(ctx, back_p, p, tol, "roundtrip:position-only", "inv(A)(A(p))")
    _req_pos(ctx, back[0], p, tol, "roundtrip:position", "inv(A)(A(p, q))")
    _req_rot(ctx, back[1], pq, "roundtrip:rotation", "inv(A)(A(p, q))")
    tol_f = REL * (1 + 2 * _norm3(tf[0]) + _norm3(p))  # inv(A)(p) has magnitude |t|+|p|
    _req_pos(ctx, forth[0], p, tol_f, "roundtrip:position", "A(inv(A)(p, q))")
    _req_rot(ctx, forth[1], pq, "roundtrip:rotation", "A(inv(A)(p, q))")

    # -- composition with the inverse is the identity, labelled X->X ---------------------------
    with ctx.under_test("inv(A).dot(A)"):
        I1 = Ai.dot(A)
        I2 = A.dot(Ai)
        I3 = A.transform(Ai)
    tol_i = REL * (1 + 2 * _norm3(tf[0]))
    _req_hm(ctx, I1, IDENT, src, src, tol_i, "inv-compose", "A.inv().dot(A)")
    _req_hm(ctx, I2, IDENT, dst, dst, tol_i, "inv-compose", "A.dot(A.inv())")
    _req_hm(ctx, I3, IDENT, src, src, tol_i, "inv-compose", "A.transform(A.inv())")

    # -- caller-owned buffers reused after construction (an ego-pose accumulator, one 4x4 scratch matrix for successive
    #    frames): whatever the transform's value then is, its position-only form, its pose form and its matrix agree --------
    shift = np.array([3.5, -2.25, 1.0])
    buf3 = np.array(tf[0], dtype=float)
    buf4 = np.array(_mat4(tf), dtype=float)
    forms = {}
    with ctx.under_test("HomogeneousMatrix on a reused buffer"):
        B3 = HomogeneousMatrix(buf3, _mk_rot(tf[1], "quat"), src, dst)
        B4 = HomogeneousMatrix.from_matrix(buf4, src, dst)
        buf3 += shift
        buf4[:3, 3] += shift
        for name, B in (("position-array", B3), ("from_matrix", B4)):
            forms[name] = (B.transform(arg_p), B.transform(arg_p, arg_q)[0], B.matrix.dot(np.array([p[0], p[1], p[2], 1.0]))[:3])
    for name, (only_p, pose_p, mat_p) in forms.items():
        ok = all(_vec3(ctx, v, f"reused-buffer {name}") is not None for v in (only_p, pose_p, mat_p))
        if not ok:
            continue
        tol_b = REL * (1 + scale + 5.0)
        agree = max(float(np.max(np.abs(np.asarray(only_p, dtype=float) - np.asarray(x, dtype=float)))) for x in (pose_p, mat_p)) <= tol_b
        ctx.require(agree, "forms-disagree-after-buffer-reuse", lambda: f"transform built from a caller's {name} buffer that was then updated in place: transform(p)={list(only_p)}, transform(p, q)[0]={list(pose_p)}, matrix.dot(p)={list(mat_p)}")

    # -- mismatched frames (src != dst, so A cannot follow A) -----------------------------------
    _expect_raise(ctx, lambda: A.dot(A), (ValueError,), "mismatch:dot", f"A.dot(A) with A: {src}->{dst}")
    _expect_raise(ctx, lambda: A.transform(A), (ValueError,), "mismatch:transform", f"A.transform(A) with A: {src}->{dst}")
    _expect_raise(ctx, lambda: Ai.transform(matrix=Ai), (ValueError,), "mismatch:transform", "inv(A).transform(matrix=inv(A))")


# ------------------------------------------------------------------------------------------------
# sub-check 2: chains
# ------------------------------------------------------------------------------------------------


def strat_chain(tier):
    @st.composite
    def s(draw):
        frames = draw(S_FRAMES_2_5)
        k = len(frames) - 1
        return {
            "frames": frames,
            "tfs": [draw(S_TF) for _ in range(k)],
            "fs": [draw(S_SPELLING) for _ in range(k)],
            "how": draw(S_HOW),
            "p": draw(S_POINT),
            "pform": draw(S_POS_FORM),
            "pq": draw(S_POSE_ROT),
        }

    return s()


@CHECK.given("chain", strat_chain, quick=600, thorough=96000)
def chain(ctx, d):
    np, Quaternion, FrameID, HomogeneousMatrix, TransformDict, TransformKey = _lib()
    frames = d["frames"]
    k = len(frames) - 1
    refs = [_ref_tf(t) for t in d["tfs"]]
    p = tuple(float(c) for c in d["p"])
    pq = _ref_q(d["pq"])
    scale = sum(_norm3(r[0]) for r in refs) + _norm3(p)
    tol = REL * (1 + scale)
    ctx.cls(f"chain_frames:{k + 1}")
    ctx.cls("how:" + d["how"])
    for t in d["tfs"]:
        _classify_tf(ctx, t)
    ctx.mark_nontrivial(k + 1 >= 3 or any(_general(r) for r in refs))

    with ctx.under_test("HomogeneousMatrix()"):
        Ts = [_mk_hm(t, _spell(frames[i], d["fs"][i]), _spell(frames[i + 1], d["fs"][i])) for i, t in enumerate(d["tfs"])]
    if len(Ts) != k:
        return

    # reference prefix compositions: ref_acc[i] = T_i o ... o T_0
    ref_acc = [refs[0]]
    for i in range(1, k):
        ref_acc.append(G.tf_compose(refs[i], ref_acc[-1]))

    # -- composition, every intermediate result labelled frames[0] -> frames[i+1] ----------------
    how = d["how"]
    acc = None
    inter = []  # (library result, reference, src index, dst index, description)
    with ctx.under_test(f"compose:{how}"):
        if how == "right":
            cur = Ts[k - 1]
            for i in range(k - 2, -1, -1):
                cur = cur.dot(Ts[i])
                inter.append((cur, None, i, k, f"T{k - 1}.dot(..).dot(T{i})"))
        else:
            cur = Ts[0]
            for i in range(1, k):
                if how == "dot":
                    cur = Ts[i].dot(cur)
                elif how == "transform":
                    cur = cur.transform(Ts[i])
                else:
                    cur = cur.transform(matrix=Ts[i])
                inter.append((cur, ref_acc[i], 0, i + 1, f"composition of T0..T{i} by {how}"))
        acc = cur
    for m, ref, a, b, what in inter:
        if ref is None:  # right fold: suffix T_{k-1} o ... o T_a
            ref = refs[k - 1]
            for j in range(k - 2, a - 1, -1):
                ref = G.tf_compose(ref, refs[j])
        _req_hm(ctx, m, ref, frames[a], frames[b], tol, "compose", what)
    if acc is None:
        return
    _req_hm(ctx, acc, ref_acc[k - 1], frames[0], frames[k], tol, "compose", f"composition of T0..T{k - 1} by {how}")

    # -- composed transform == step-by-step transform (library and reference) --------------------
    arg_p, arg_q = _mk_pos(p, d["pform"]), _mk_rot(pq, d["pq"]["rform"])
    with ctx.under_test("stepwise transform"):
        one_p = acc.transform(arg_p)
        one = acc.transform(arg_p, arg_q)
        sp = arg_p
        for T in Ts:
            sp = T.transform(sp)
        step = (arg_p, arg_q)
        for T in Ts:
            step = T.transform(*step)
    ref_p, ref_q = p, pq
    for r in refs:
        ref_p, ref_q = G.tf_apply(r, ref_p), G.tf_apply_q(r, ref_q)
    _req_pos(ctx, one_p, ref_p, tol, "compose-apply:position-only", "composed.transform(p)")
    _req_pos(ctx, one[0], ref_p, tol, "compose-apply:position", "composed.transform(p, q)")
    _req_rot(ctx, one[1], ref_q, "compose-apply:rotation", "composed.transform(p, q)")
    _req_pos(ctx, sp, ref_p, tol, "stepwise:position-only", "T_k(..T_0(p))")
    _req_pos(ctx, step[0], ref_p, tol, "stepwise:position", "T_k(..T_0(p, q))")
    _req_rot(ctx, step[1], ref_q, "stepwise:rotation", "T_k(..T_0(p, q))")
    v1, v2 = _vec3(ctx, one[0], "composed"), _vec3(ctx, step[0], "stepwise")
    err = max(abs(a - b) for a, b in zip(v1, v2))
    ctx.require(err <= tol, "compose-vs-stepwise:position", lambda: f"composed {v1} vs two-step {v2} (err {err:.3e})")
    e = _qdist(_quat(ctx, one[1], "composed"), _quat(ctx, step[1], "stepwise"))
    ctx.require(e <= ROT_TOL, "compose-vs-stepwise:rotation", lambda: f"composed rotation differs from two-step rotation by {e:.3e}")

    # -- inverse of the composition undoes the chain; closing the loop gives the identity ---------
    with ctx.under_test("inverse of composition"):
        inv = acc.inv()
        back = inv.transform(step[0], step[1])
        loop = inv.dot(acc)
    _req_hm(ctx, inv, G.tf_inv(ref_acc[k - 1]), frames[k], frames[0], REL * (1 + scale), "inv-of-composition", "composed.inv()")
    tol_b = REL * (1 + 2 * scale)
    _req_pos(ctx, back[0], p, tol_b, "roundtrip-chain:position", "inv(composed)(chain(p, q))")
    _req_rot(ctx, back[1], pq, "roundtrip-chain:rotation", "inv(composed)(chain(p, q))")
    _req_hm(ctx, loop, IDENT, frames[0], frames[0], tol_b, "loop-identity", "composed.inv().dot(composed)")

    # -- every non-adjacent ordered pair is a frame mismatch --------------------------------------
    n_bad = 0
    for i, j in itertools.product(range(k), range(k)):
        if j == i + 1:
            continue  # T_j.src == T_i.dst: legal
        n_bad += 1
        _expect_raise(ctx, lambda: Ts[j].dot(Ts[i]), (ValueError,), "mismatch:dot", f"T{j}.dot(T{i}) over frames {frames}")
        _expect_raise(ctx, lambda: Ts[i].transform(Ts[j]), (ValueError,), "mismatch:transform", f"T{i}.transform(T{j}) over frames {frames}")
    ctx.cls("mismatch_pairs", n_bad)


# ------------------------------------------------------------------------------------------------
# sub-check 3: registry
# ------------------------------------------------------------------------------------------------


def _pairs(n):
    return [(i, j) for i in range(n) for j in range(i + 1, n)]


S_BOOL = st.booleans()
S_IDX = {n: st.integers(0, n - 1) for n in range(1, 7)}
S_NQ = st.integers(1, 6)
S_EDGE_SETS = {n: st.lists(st.sampled_from(_pairs(n)), min_size=1, max_size=min(4, len(_pairs(n))), unique=True) for n in range(2, 6)}
S_CTOR = st.sampled_from(["list", "tuple", "setitem"])
S_CTOR_1 = st.sampled_from(["list", "tuple", "setitem", "single", "single"])


def strat_registry(tier):
    @st.composite
    def s(draw):
        frames = draw(S_FRAMES_2_5)
        n = len(frames)
        edges = []
        for i, j in draw(S_EDGE_SETS[n]):
            if draw(S_BOOL):
                i, j = j, i
            edges.append({"i": i, "j": j, "tf": draw(S_TF), "fs": draw(S_SPELLING), "both": draw(S_BOTH)})
        single_ok = len(edges) == 1 and not edges[0]["both"]
        # queries: a free (s, d) pair, or — to keep direct / inverse lookups frequent — an edge in either direction
        queries = []
        for _ in range(draw(S_NQ)):
            if draw(S_BOOL):
                sd = [draw(S_IDX[n]), draw(S_IDX[n])]
            else:
                e = edges[draw(S_IDX[len(edges)])]
                sd = [e["i"], e["j"]] if draw(S_BOOL) else [e["j"], e["i"]]
            queries.append({"sd": sd, "ss": draw(S_SPELLING), "ds": draw(S_SPELLING), "kform": draw(S_KEY_FORM), "call": draw(S_CALL)})
        return {
            "frames": frames,
            "edges": edges,
            "ctor": draw(S_CTOR_1 if single_ok else S_CTOR),
            "setkey": draw(S_KEY_FORM),
            "queries": queries,
            "p": draw(S_POINT),
            "pform": draw(S_POS_FORM),
            "pq": draw(S_POSE_ROT),
            "m": draw(S_TF),
            "mz": draw(S_FRAME),
        }

    return s()


def _mk_key(src, dst, kform):
    TransformKey = _lib()[5]
    if kform == "tuple":
        return (src, dst)
    if kform == "list":
        return [src, dst]
    if kform == "key":
        return TransformKey(src, dst)
    raise AssertionError(kform)


def _call(td, key, call, arg_p, arg_q, M):
    if call == "pos":
        return td.transform(key, arg_p)
    if call == "pos_kw":
        return td.transform(key, position=arg_p)
    if call == "pose":
        return td.transform(key, arg_p, arg_q)
    if call == "pose_kw":
        return td.transform(key, position=arg_p, rotation=arg_q)
    if call == "mat":
        return td.transform(key, M)
    if call == "mat_kw":
        return td.transform(key, matrix=M)
    raise AssertionError(call)


def _outcome(fn):
    """('ok', value) or ('exc', exception) — used where raising is one of the legal outcomes."""
    try:
        return ("ok", fn())
    except Exception as e:  # noqa: BLE001 -- the caller asserts on the exception type
        return ("exc", e)


def _identity_is_strict(s_spelled, d_spelled, kform):
    """Is the X->X query spelled so that the statement pins the answer ('returns its input unchanged')?

    Strict: TransformKey (normalises both names), the same string twice, two enums, or an enum with the member's
    own value string.  Otherwise the two spellings differ only by letter case from the member value, e.g.
    ('BASE_LINK', FrameID.BASE_LINK): nothing documents whether that is recognised as X->X; not asserted.
    """
    if kform == "key":
        return True
    a_str, b_str = isinstance(s_spelled, str), isinstance(d_spelled, str)
    if a_str and b_str:
        return s_spelled == d_spelled
    if not a_str and not b_str:
        return True
    e, s = (d_spelled, s_spelled) if a_str else (s_spelled, d_spelled)
    return e.value == s


def _check_query_result(ctx, call, got, expect_tf, src, dst_label, p, pq, m_ref, tol, sig, what):
    """got = td.transform(key, ...) for a key that resolves to the reference transform expect_tf (src -> query dst)."""
    if call in ("pos", "pos_kw"):
        _req_pos(ctx, got, G.tf_apply(expect_tf, p), tol, sig + ":position-only", what)
    elif call in ("pose", "pose_kw"):
        ok = isinstance(got, tuple) and len(got) == 2
        ctx.require(ok, sig + ":not-a-pair", lambda: f"{what} returned {got!r}")
        if ok:
            _req_pos(ctx, got[0], G.tf_apply(expect_tf, p), tol, sig + ":position", what)
            _req_rot(ctx, got[1], G.tf_apply_q(expect_tf, pq), sig + ":rotation", what)
    else:
        _req_hm(ctx, got, G.tf_compose(m_ref, expect_tf), src, dst_label, tol, sig + ":matrix", what)


def _results_close(ctx, call, a, b, tol):
    """Two answers of the same call form agree (string key vs enum key)."""
    np, Quaternion, _, HomogeneousMatrix, _, _ = _lib()

    def flat(x):
        if isinstance(x, HomogeneousMatrix):
            return [float(c) for c in np.asarray(x.matrix).ravel()], (x.src, x.dst)
        if isinstance(x, tuple) and len(x) == 2 and isinstance(x[1], Quaternion):
            return [float(c) for c in x[0]] + [float(c) for c in x[1].q], None
        return [float(c) for c in x], None

    try:
        fa, la = flat(a)
        fb, lb = flat(b)
    except (TypeError, ValueError):
        return False
    return len(fa) == len(fb) and la == lb and all(abs(x - y) <= tol for x, y in zip(fa, fb))


@CHECK.given("registry", strat_registry, quick=600, thorough=96000)
def registry(ctx, d):
    np, Quaternion, FrameID, HomogeneousMatrix, TransformDict, TransformKey = _lib()
    frames = d["frames"]
    p = tuple(float(c) for c in d["p"])
    pq = _ref_q(d["pq"])
    m_ref = _ref_tf(d["m"])

    # reference registry: (i, j) -> (tf, library matrix)
    reg = {}
    mats = []
    with ctx.under_test("HomogeneousMatrix()"):
        for e in d["edges"]:
            tf = _ref_tf(e["tf"])
            M = _mk_hm(e["tf"], _spell(frames[e["i"]], e["fs"]), _spell(frames[e["j"]], e["fs"]))
            reg[(e["i"], e["j"])] = (tf, M)
            mats.append(((e["i"], e["j"]), M))
            if e["both"]:
                # the opposite direction registered too: the exact reference inverse (either may be used)
                ti = G.tf_inv(tf)
                Mi = HomogeneousMatrix(ti[0], ti[1], _spell(frames[e["j"]], e["fs"]), _spell(frames[e["i"]], e["fs"]))
                reg[(e["j"], e["i"])] = (ti, Mi)
                mats.append(((e["j"], e["i"]), Mi))
                ctx.cls("edge_both_directions")
            _classify_tf(ctx, e["tf"])
    if len(mats) < len(d["edges"]):
        return
    ctx.cls("ctor:" + d["ctor"])
    ctx.mark_nontrivial(len(frames) >= 3 or any(_general(v[0]) for v in reg.values()))

    with ctx.under_test("TransformDict()"):
        if d["ctor"] == "single":
            td = TransformDict(mats[0][1])
        elif d["ctor"] == "list":
            td = TransformDict([m for _, m in mats])
        elif d["ctor"] == "tuple":
            td = TransformDict(tuple(m for _, m in mats))
        else:
            td = TransformDict()
            for n, ((i, j), m) in enumerate(mats):
                how = SPELLINGS[n % len(SPELLINGS)]
                td[_mk_key(_spell(frames[i], how), _spell(frames[j], how), d["setkey"])] = m
        n_reg = len(td)
    ctx.require(n_reg == len(mats), "registry:len", lambda: f"{len(mats)} matrices over distinct frame pairs registered, len() = {n_reg}")

    arg_p, arg_q = _mk_pos(p, d["pform"]), _mk_rot(pq, d["pq"]["rform"])

    for q in d["queries"]:
        si, di = q["sd"]
        call = q["call"]
        s_sp, d_sp = _spell(frames[si], q["ss"]), _spell(frames[di], q["ds"])
        ctx.cls("key:" + q["kform"])
        ctx.cls("spelling:" + q["ss"])
        ctx.cls("call:" + call)
        what = f"transform(({s_sp!r}, {d_sp!r}) as {q['kform']}, {call})"
        # matrix argument: lives in the query's destination frame, leads to frame mz
        with ctx.under_test("HomogeneousMatrix()"):
            Marg = _mk_hm(d["m"], FrameID[frames[di]], FrameID[d["mz"]])
        scale = _norm3(p) + _norm3(m_ref[0])

        if si == di:
            strict = _identity_is_strict(s_sp, d_sp, q["kform"])
            with ctx.under_test("TransformKey()"):
                key = _mk_key(s_sp, d_sp, q["kform"])
            kind, got = _outcome(lambda: _call(td, key, call, arg_p, arg_q, Marg))
            # (mixed-case spellings such as ("BASE_LINK", FrameID.BASE_LINK) are asserted like every other X->X query:
            #  names and enums are interchangeable as keys; the library was repaired accordingly, see known_findings.json)
            ctx.cls("query:identity" if strict else "identity_mixed_case")
            if kind == "exc":
                ctx.violate(f"crash:identity-query:{type(got).__name__}", f"{what} raised {type(got).__name__}: {got}")
                continue
            if call in ("pos", "pos_kw"):
                ok = _same_value(got, arg_p)
            elif call in ("pose", "pose_kw"):
                ok = isinstance(got, (tuple, list)) and len(got) == 2 and _same_value(got[0], arg_p) and _same_value(got[1], arg_q)
            else:
                ok = got is Marg or (isinstance(got, HomogeneousMatrix) and _results_close(ctx, call, got, Marg, 0.0))
            ctx.require(ok, "identity-not-unchanged", lambda: f"{what} returned {got!r}, expected the input unchanged")
            continue

        with ctx.under_test("TransformKey()"):
            key = _mk_key(s_sp, d_sp, q["kform"])
            key_enum = (FrameID[frames[si]], FrameID[frames[di]])
        kind, got = _outcome(lambda: _call(td, key, call, arg_p, arg_q, Marg))
        kind_e, got_e = _outcome(lambda: _call(td, key_enum, call, arg_p, arg_q, Marg))

        if (si, di) in reg:
            expect, sig = reg[(si, di)][0], "registered"
            ctx.cls("query:direct")
        elif (di, si) in reg:
            expect, sig = G.tf_inv(reg[(di, si)][0]), "inverse-fallback"
            ctx.cls("query:inverse")
        else:
            expect, sig = None, "unregistered"
            ctx.cls("query:unregistered")

        if expect is None:
            for k_, g_, w_ in ((kind, got, what), (kind_e, got_e, what + " [enum key]")):
                if k_ == "ok":
                    ctx.violate("unregistered:not-rejected", f"{w_}: neither direction registered, returned {g_!r}")
                elif not isinstance(g_, (KeyError, ValueError)):
                    ctx.violate("unregistered:wrong-exception", f"{w_}: raised {type(g_).__name__}: {g_}")
            continue

        if kind == "exc":
            ctx.violate(f"crash:{sig}-query:{type(got).__name__}", f"{what} raised {type(got).__name__}: {got}")
            continue
        if kind_e == "exc":
            ctx.violate(f"crash:{sig}-query:{type(got_e).__name__}", f"{what} [enum key] raised {type(got_e).__name__}: {got_e}")
            continue
        tol = REL * (1 + 2 * _norm3(expect[0]) + scale)
        _check_query_result(ctx, call, got, expect, frames[si], d["mz"], p, pq, m_ref, tol, sig, what)
        _check_query_result(ctx, call, got_e, expect, frames[si], d["mz"], p, pq, m_ref, tol, sig, what + " [enum key]")
        ctx.require(
            _results_close(ctx, call, got, got_e, 1e-12 * (1 + 2 * _norm3(expect[0]) + scale)),
            "string-vs-enum-key",
            lambda: f"{what} = {got!r} but the FrameID-spelled key gives {got_e!r}",
        )

        # registered matrices are retrievable under every spelling of their key
        if (si, di) in reg:
            with ctx.under_test("TransformDict.get / []"):
                g1 = td.get(key)
                g2 = td[key]
                inside = key in td.keys() if q["kform"] == "key" else None
            ctx.require(g1 is reg[(si, di)][1] and g2 is g1, "get-registered", lambda: f"get/[] with key {key!r} returned {g1!r} / {g2!r}")
            ctx.require(inside in (None, True), "key-not-in-keys", lambda: f"{key!r} not in keys()")

    # a frame pair with neither direction registered: get -> None, [] -> KeyError
    n = len(frames)
    for i, j in itertools.product(range(n), range(n)):
        if i != j and (i, j) not in reg and (j, i) not in reg:
            with ctx.under_test("TransformDict.get(unregistered)"):
                g = td.get((FrameID[frames[i]], _spell(frames[j], "value")))
            ctx.require(g is None, "get-unregistered", lambda: f"get(({frames[i]}, {frames[j]})) returned {g!r} for an unregistered pair")
            _expect_raise(ctx, lambda: td[(FrameID[frames[i]], FrameID[frames[j]])], (KeyError,), "getitem-unregistered", f"td[({frames[i]}, {frames[j]})]")
            break


# ------------------------------------------------------------------------------------------------
# sub-check 4 (exhaustive): every ordered FrameID pair x string spelling x key form
# ------------------------------------------------------------------------------------------------

FIXED_TF = {"t": [12.5, -340.25, 3.75], "axis": [0.3, -0.5, 0.8], "angle": 1.1, "sign": 1, "rform": "tuple"}
FIXED_P = (4.0, -7.5, 1.25)
FIXED_Q = G.q_from_axis_angle((0.2, 0.9, -0.4), -2.3)


def gen_spellings(tier):
    for a, b in itertools.product(FRAME_NAMES, FRAME_NAMES):
        for how in ("value", "lower", "upper"):
            for kform in KEY_FORMS:
                yield {"src": a, "dst": b, "spelling": how, "kform": kform}


@CHECK.enum("key_spellings", gen_spellings)
def key_spellings(ctx, d):
    np, Quaternion, FrameID, HomogeneousMatrix, TransformDict, TransformKey = _lib()
    a, b, how, kform = d["src"], d["dst"], d["spelling"], d["kform"]
    members = [m.name for m in FrameID]
    if sorted(members) != sorted(FRAME_NAMES):  # our table is stale: a harness error, not a verdict
        raise RuntimeError(f"FRAME_NAMES out of date; FrameID members are {members}")
    ctx.mark_nontrivial()
    ctx.cls("spelling:" + how)
    ctx.cls("key:" + kform)
    tf = _ref_tf(FIXED_TF)
    tol = REL * (1 + 2 * _norm3(tf[0]) + _norm3(FIXED_P))
    sa, sb = _spell(a, how), _spell(b, how)
    p = FIXED_P

    if a == b:
        # X->X: input returned unchanged even from an empty registry
        ctx.cls("query:identity")
        with ctx.under_test("identity query (string key)"):
            td = TransformDict()
            key = _mk_key(sa, sb, kform)
            got = td.transform(key, p)
            got2 = td.transform(key, p, FIXED_Q)
        ctx.require(_same_value(got, p), "identity-not-unchanged", lambda: f"transform({key!r}, p) returned {got!r}")
        ctx.require(
            isinstance(got2, (tuple, list)) and len(got2) == 2 and _same_value(got2[0], p) and _same_value(got2[1], FIXED_Q),
            "identity-not-unchanged",
            lambda: f"transform({key!r}, p, q) returned {got2!r}",
        )
        return

    with ctx.under_test("HomogeneousMatrix(src=str, dst=str)"):
        A = _mk_hm(FIXED_TF, sa, sb)
        td = TransformDict([A])
    _req_label(ctx, A, a, b, "construct:label", f"HomogeneousMatrix(src={sa!r}, dst={sb!r})")
    with ctx.under_test("registry query (string key)"):
        k_fwd, k_rev = _mk_key(sa, sb, kform), _mk_key(sb, sa, kform)
        fwd = td.transform(k_fwd, p, FIXED_Q)
        rev = td.transform(k_rev, p, FIXED_Q)
        fwd_e = td.transform((FrameID[a], FrameID[b]), p, FIXED_Q)
        rev_e = td.transform((FrameID[b], FrameID[a]), p, FIXED_Q)
        g = td.get(k_fwd)
        g2 = td[k_fwd]
    ctx.cls("query:direct")
    ctx.cls("query:inverse")
    _check_query_result(ctx, "pose", fwd, tf, a, b, p, FIXED_Q, IDENT, tol, "registered", f"transform({k_fwd!r})")
    _check_query_result(ctx, "pose", rev, G.tf_inv(tf), b, a, p, FIXED_Q, IDENT, tol, "inverse-fallback", f"transform({k_rev!r})")
    ctx.require(_results_close(ctx, "pose", fwd, fwd_e, 0.0), "string-vs-enum-key", lambda: f"{k_fwd!r}: {fwd!r} vs enum key {fwd_e!r}")
    ctx.require(_results_close(ctx, "pose", rev, rev_e, 1e-12 * (1 + _norm3(tf[0]))), "string-vs-enum-key", lambda: f"{k_rev!r}: {rev!r} vs enum key {rev_e!r}")
    ctx.require(g is A and g2 is A, "get-registered", lambda: f"get/[] with {k_fwd!r} returned {g!r} / {g2!r}")
    # a third frame: neither direction registered
    c = next(n for n in FRAME_NAMES if n not in (a, b))
    sc = _spell(c, how)
    for s_, d_ in ((sa, sc), (sc, sb)):
        kind, got = _outcome(lambda: td.transform(_mk_key(s_, d_, kform), p))
        ctx.cls("query:unregistered")
        if kind == "ok":
            ctx.violate("unregistered:not-rejected", f"transform(({s_!r}, {d_!r})) returned {got!r}; only {a}->{b} is registered")
        elif not isinstance(got, (KeyError, ValueError)):
            ctx.violate("unregistered:wrong-exception", f"transform(({s_!r}, {d_!r})) raised {type(got).__name__}: {got}")


# ------------------------------------------------------------------------------------------------
# registry histories: set / replace / delete interleaved with queries, compared with a plain dict model
# (added after a seeded change cached computed inverses inside the registry: correct until a matrix is replaced)
# ------------------------------------------------------------------------------------------------

_HIST_FRAMES = ["BASE_LINK", "MAP", "LIDAR_TOP", "CAM_FRONT"]


@st.composite
def _registry_histories(draw, tier="quick"):
    nf = draw(st.integers(2, 4))
    frames = _HIST_FRAMES[:nf]
    ops = []

    def mk_set(i, j):
        ax = [draw(st.sampled_from([0.0, 1.0, -1.0, 0.5])) for _ in range(3)]
        if ax == [0.0, 0.0, 0.0]:
            ax = [0.0, 0.0, 1.0]
        return {"op": "set", "src": i, "dst": j, "t": [draw(st.sampled_from([0.0, 1.5, -20.0, 1e3, -3e4])) for _ in range(3)], "axis": ax, "angle": draw(st.sampled_from([0.0, 0.3, -1.2, 2.9, math.pi]))}

    def mk_query(i, j):
        return {"op": "query", "src": i, "dst": j, "p": [draw(st.sampled_from([0.0, 1.0, -7.5, 40.0])) for _ in range(3)], "enum_key": draw(st.booleans())}

    if draw(st.booleans()):
        # by construction: register a->b, ask b->a (inverse fallback), replace a->b (an ego pose update), ask b->a again
        a_, b_ = draw(st.permutations(list(range(nf))))[:2]
        ops += [mk_set(a_, b_), mk_query(b_, a_)]
        if draw(st.booleans()):
            ops.append(mk_query(a_, b_))
        ops += [mk_set(a_, b_), mk_query(b_, a_), mk_query(a_, b_)]
    n_ops = draw(st.integers(3, 14 if tier == "quick" else 30))
    for _ in range(n_ops):
        kind = draw(st.sampled_from(["set", "set", "query", "query", "query", "del"]))
        i, j = draw(st.integers(0, nf - 1)), draw(st.integers(0, nf - 1))
        if kind == "set":
            if i == j:
                continue
            ax = [draw(st.sampled_from([0.0, 1.0, -1.0, 0.5])) for _ in range(3)]
            if ax == [0.0, 0.0, 0.0]:
                ax = [0.0, 0.0, 1.0]
            ops.append({"op": "set", "src": i, "dst": j, "t": [draw(st.sampled_from([0.0, 1.5, -20.0, 1e3, -3e4])) for _ in range(3)], "axis": ax, "angle": draw(st.sampled_from([0.0, 0.3, -1.2, 2.9, math.pi]))})
        elif kind == "del":
            ops.append({"op": "del", "src": i, "dst": j})
        else:
            ops.append({"op": "query", "src": i, "dst": j, "p": [draw(st.sampled_from([0.0, 1.0, -7.5, 40.0])) for _ in range(3)], "enum_key": draw(st.booleans())})
    return {"frames": frames, "ops": ops}


@CHECK.given("registry_histories", lambda tier: _registry_histories(tier), quick=400, thorough=40000)
def registry_histories(ctx, d):
    np, _, FrameID, HomogeneousMatrix, TransformDict, TransformKey = _lib()
    frames = d["frames"]
    td = None
    with ctx.under_test("TransformDict()"):
        td = TransformDict()
    if td is None:
        return
    model = {}
    replaced = False
    queried_inverse = set()
    nt = False
    for op in d["ops"]:
        s, t = frames[op["src"]], frames[op["dst"]]
        if op["op"] == "set":
            tf = (tuple(op["t"]), G.q_from_axis_angle(op["axis"], op["angle"]))
            with ctx.under_test("TransformDict.__setitem__"):
                td[(FrameID[s], FrameID[t])] = HomogeneousMatrix(tf[0], tf[1], src=FrameID[s], dst=FrameID[t])
            if (s, t) in model and (t, s) in queried_inverse:
                replaced = True
            model[(s, t)] = tf
        elif op["op"] == "del":
            if (s, t) in model:
                with ctx.under_test("TransformDict.__delitem__"):
                    del td[(FrameID[s], FrameID[t])]
                del model[(s, t)]
        else:
            p = tuple(op["p"])
            key = (FrameID[s], FrameID[t]) if op["enum_key"] else (FrameID[s].value, FrameID[t].value)
            kind, got = _outcome(lambda: td.transform(key, p))
            if s == t:
                exp = p
            elif (s, t) in model:
                exp = G.tf_apply(model[(s, t)], p)
            elif (t, s) in model:
                exp = G.tf_apply(G.tf_inv(model[(t, s)]), p)
                queried_inverse.add((s, t))
            else:
                exp = None
            if exp is None:
                ctx.require(kind == "exc" and isinstance(got, (KeyError, ValueError)), "history:unregistered-answered", lambda: f"query {s}->{t} with neither direction registered returned {got!r}")
                continue
            if kind == "exc":
                ctx.violate(f"history:query-raised:{type(got).__name__}", f"query {s}->{t} raised {type(got).__name__}: {got} although {'the direct' if (s, t) in model else 'the reverse'} transform is registered")
                continue
            v = _vec3(ctx, got, "history:query")
            if v is None:
                continue
            scale = 1.0 + sum(abs(c) for c in exp) + sum(abs(c) for c in p)
            ok = all(abs(a - b) <= 1e-9 * scale * 10 for a, b in zip(v, exp))
            if replaced:
                nt = True
            ctx.require(ok, "history:stale-or-wrong-answer", lambda: f"after the history so far, query {s}->{t} of {p} gave {v}, the registered matrices give {exp}")
    ctx.mark_nontrivial(nt)
    if replaced:
        ctx.cls("matrix_replaced_after_inverse_query")
