"""C19 — analysis tables are a faithful tabulation of the frame results.

Domain: 1-3 scenes of 0-4 frames each, every scene evaluated by its own real PerceptionEvaluationManager (same
configuration: detection / tracking, ego or map frame, manager filter + per-frame critical filter, pass/fail
thresholds, FP-labelled GTs, clutter, mislabelled estimates, optional velocities), all added to ONE
PerceptionAnalyzer3D(manager.evaluator_config, num_area_division in {1, 3, 9}) through add(); consistent multi-frame
tracking histories (checks/c05.tracking_histories) go through the same body.

Oracles (all by plain Python over analyzer.df converted to records, objects identified by their per-frame unique uuid):
  rows      : per (scene, frame) the multiset of row pairs (status, GT uuid|None, estimate uuid|None) equals the one
              given by the frame's four pass/fail lists; index structure = one ground_truth + one estimation row per
              pair number; num_* / get_num_* / get_status_num agree with the table
  counts    : estimate rows = len(object_results); GT rows = len(frame_ground_truth.objects) + D12 surplus
  values    : x, y, yaw (mod 2 pi), size, label, uuid, confidence, num_points, timestamp, frame_id, frame, scene,
              distance of every row equal the descriptor's EGO-frame values
  area      : generate_area_points(n, max_x, max_y) rectangle with the row's area index contains the position
  errors    : calculate_error = GT row - estimate row of paired rows in table order (yaw wrapped), summarize_error
              recomputed; summarize_ratio recomputed and in [0, 1]; confusion matrix = label-pair counts of paired rows
  select    : get / get_ground_truth / get_estimation / filter_by_distance / analyze(selection)
  status    : get_object_status(frame_results) tallies
"""
import contextlib
import io
import math

from hypothesis import strategies as st

from vlib import desc as D
from vlib import gen as GEN
from vlib import mgrlib as MG
from vlib.harness import Check, proc_tmp

CHECK = Check(
    "C19",
    rule=(
        "1-3 scenes x 0-4 frames (thorough: up to 6 frames, up to 16 objects) evaluated by real managers sharing one "
        "configuration (detection/tracking; ego or map frame with ego poses up to 1e5 m; x/y box (scalar, as documented "
        "for the analyzer) or distance ring; narrower per-frame critical filters; pass/fail thresholds around the "
        "generated offsets; FP-labelled GTs, clutter, mislabelled / flipped estimates; velocities on none/all/some "
        "objects), tabulated by PerceptionAnalyzer3D with 1/3/9 areas, plus label/scene/area/frame/status/uuid/"
        "distance selections; second generator: consistent tracking histories split into scenes. Non-trivial = the "
        "added frames contain at least one TP, one FP with a ground truth, one ground-truth-less FP and one FN; "
        "distinct by descriptor hash."
    ),
    assumptions=[
        "max_x_position / max_y_position are scalars (documented type float; the analyzer reads them from "
        "evaluation_config_dict and a per-label list makes its constructor raise)",
        "ground-truth uuids and estimate uuids are unique within a frame (rows are identified by uuid), except in the cases "
        "classified ids_none / ids_shared, for which only the row / status accounting is decided",
        "positions 1e-6*(1+|coordinate|), yaw 1e-6 modulo 2 pi; error summaries 1e-9 relative; positions within 1e-6 of "
        "an area border and distances within 1e-9 of a selection bound are boundary cases",
        "the area of the GT row of a TP/FP pair may be the pair's (estimate's) area or the GT's own area",
        "scene numbering is only required to be the key under which analyzer.frame_results holds the added list",
        "per-label error summaries may group paired rows by GT label or by estimate label; the confusion matrix may be "
        "GT x estimate or its transpose (neither is documented)",
        "selections with several keywords: accepted result lies between 'one row satisfies all' and 'each keyword is "
        "satisfied by some row of the pair'",
    ],
    design_ref="§6 C19",
)

D12 = "gt-of-matched-fp-counted-in-fp-pair-and-fn-row"
KINDS = ("ground_truth", "estimation")
TWO_PI = 2.0 * math.pi


# ------------------------------------------------------------------------------------------------
# strategies
# ------------------------------------------------------------------------------------------------


def _scalar_xy(d):
    """The analyzer documents scalar max_x/y_position: make the manager's x/y box label independent."""
    m = d["mgr"]
    n = len(d["targets"])
    if m["kind"] == "xy":
        m["max_x"] = [m["max_x"][0]] * n
        m["max_y"] = [m["max_y"][0]] * n


@st.composite
def analyzer_cases(draw, tier="quick", histories=False):
    big = tier == "thorough"
    # small choices first (the scene descriptors below use most of an example's entropy budget)
    nad = draw(st.sampled_from([1, 3, 9]))
    vel = draw(st.sampled_from(["none", "all", "some"]))
    lo = draw(st.sampled_from([0.0, 0.0, 5.0, 12.0, 25.0]))
    sel = {
        "label": draw(st.integers(0, 5)),
        "label2": draw(st.integers(0, 5)),
        "scene": draw(st.integers(0, 3)),
        "area": draw(st.integers(0, 8)),
        "frame": draw(st.integers(0, 5)),
        "status": draw(st.sampled_from(["TP", "FP", "TN", "FN"])),
        "row": draw(st.integers(0, 200)),
        "dist": [lo, lo + draw(st.sampled_from([8.0, 20.0, 45.0, 200.0]))],
        "analyze": draw(st.sampled_from(["scene", "area", "dist", "label", "scene+area"])),
    }
    ns = draw(st.integers(1, 3))
    cut_seed = [draw(st.integers(0, 5)) for _ in range(2)]
    empty_scene = draw(st.integers(0, 11))
    if histories:
        from checks import c05

        d = draw(c05.tracking_histories(tier))
    else:
        d = draw(MG.manager_cases(tier, tasks=("detection", "tracking", "fp_validation"), max_frames=6 if big else 4))
    _scalar_xy(d)
    if d["frame"] == "map" and draw(st.integers(0, 2)) == 0:
        # ego on a slope (any real localisation pose has some roll / pitch): the table is still in the ego's own frame
        for f in d["frames"]:
            if len(f["ego"]) == 3:
                x, y, yaw = f["ego"]
                f["ego"] = [x, y, draw(st.integers(-8, 8)) / 4.0, yaw, draw(st.integers(-8, 8)) / 40.0, draw(st.integers(-8, 8)) / 40.0]
        d["slope"] = True
    nf = len(d["frames"])
    ns = min(ns, nf)
    cuts = []
    for c in cut_seed[: ns - 1]:
        rem = [x for x in range(1, nf) if x not in cuts]
        if rem:
            cuts.append(rem[c % len(rem)])
    cuts.sort()
    split = [b - a for a, b in zip([0] + cuts, cuts + [nf])]
    if empty_scene == 0:
        split.insert(cut_seed[0] % (len(split) + 1), 0)  # a scene without frames
    if vel != "none":
        for f in d["frames"]:
            for o in f["gt"] + f["est"]:
                if vel == "all" or draw(st.booleans()):
                    o["vel"] = [draw(st.integers(-60, 60)) / 4.0, draw(st.integers(-60, 60)) / 4.0, 0.0]  # (cheap draws: the histories are near the entropy limit)
    if not histories:
        # pass/fail configurations that name `false_positive` with a threshold of its own (FP validation set-ups)
        for f in d["frames"]:
            if f["pf"] is not None and any(g["label"] == "false_positive" for g in f["gt"]) and draw(st.integers(0, 1)) == 0:
                f["pf_fp"] = draw(st.sampled_from([0.6, 1.2, 2.5]))
        # FP-labelled ground truths are exempt from every range filter: occasionally put one outside the analyzer's
        # area grid (|x| > max_x), so that rows without an area occur
        grid_x = float(d["mgr"]["max_x"][0]) if d["mgr"]["kind"] == "xy" else 100.0
        for f in d["frames"]:
            fps = [g for g in f["gt"] if g["label"] == "false_positive"]
            if fps and draw(st.integers(0, 2)) == 0:
                g = fps[draw(st.integers(0, len(fps) - 1))]
                g["p"] = [draw(st.sampled_from([-1.0, 1.0])) * (grid_x + draw(GEN.fl(1.0, 40.0))), g["p"][1], g["p"][2]]
    if not histories and d["task"] == "detection" and draw(st.integers(0, 1)) == 0:
        # detection needs no instance ids (FP-validation cases keep unique ids: their object-status tallies are keyed by uuid): ground truths without ids or with ids shared between annotations; rows can then
        # not be told apart by uuid, so only the row / status accounting of such a case is checked (see _body)
        how = draw(st.sampled_from(["none", "shared"]))
        d["mgr"]["uuids"] = None
        for f in d["frames"]:
            f["crit"]["uuids"] = None
            for i, o in enumerate(f["gt"]):
                o["uuid"] = None if how == "none" else f"shared{i % 2}"
            for o in f["est"]:
                o["uuid"] = None
        d["uuid_mode"] = how
    return {"case": d, "split": split, "nad": nad, "sel": sel}


# ------------------------------------------------------------------------------------------------
# driving the library (local variant of mgrlib.run_case: scalar x/y ranges in the real config)
# ------------------------------------------------------------------------------------------------


def _make_manager(d):
    import perception_eval.manager._evaluation_manager_base as B
    from perception_eval.config import PerceptionEvaluationConfig
    from perception_eval.manager import PerceptionEvaluationManager

    cfg_dict = MG.config_dict(d)
    if d["mgr"]["kind"] == "xy":
        cfg_dict["max_x_position"] = float(d["mgr"]["max_x"][0])
        cfg_dict["max_y_position"] = float(d["mgr"]["max_y"][0])
    cfg = PerceptionEvaluationConfig(
        dataset_paths=[MG.SAMPLE],
        frame_id=d["frame"],
        result_root_directory=proc_tmp(),
        evaluation_config_dict=cfg_dict,
    )
    orig = B.load_all_datasets
    B.load_all_datasets = lambda **kw: []
    try:
        mgr = PerceptionEvaluationManager(cfg)
    finally:
        B.load_all_datasets = orig
    return mgr


def _run_scene(ctx, d):
    mgr = _make_manager(d)
    gt_frames = MG.build_gt_frames(d)
    mgr.ground_truth_frames = gt_frames
    # snapshot of the object lists (identity): the pre-fix manager overwrote FrameGroundTruth.objects (C13's finding)
    gt_lists = [list(fr.objects) for fr in gt_frames]
    est_lists, results = [], []
    crits, pfs = None, None
    with ctx.under_test("CriticalObjectFilterConfig / PerceptionPassFailConfig"):
        crits = [MG.crit_config(mgr, d, f) for f in d["frames"]]  # all prepared up front (see mgrlib.run_case)
        pfs = [MG.pf_config(mgr, d, f) for f in d["frames"]]
    if crits is None or pfs is None:
        return None
    for i, f in enumerate(d["frames"]):
        t = D.T0 + i * 100_000
        ests = D.objs3d(f["est"], d["frame"], f["ego"], t)
        est_lists.append(ests)
        res = None
        with ctx.under_test("add_frame_result"):
            now = mgr.get_ground_truth_now_frame(t)
            res = mgr.add_frame_result(
                unix_time=t,
                ground_truth_now_frame=now,
                estimated_objects=list(ests),
                critical_object_filter_config=crits[i],
                frame_pass_fail_config=pfs[i],
            )
        if res is None:
            return None
        results.append(res)
    return {"mgr": mgr, "gt_frames": gt_frames, "gt_lists": gt_lists, "est_lists": est_lists, "results": results}


@contextlib.contextmanager
def _quiet():
    with contextlib.redirect_stderr(io.StringIO()):  # tqdm progress bars
        yield


# ------------------------------------------------------------------------------------------------
# small helpers
# ------------------------------------------------------------------------------------------------


def _null(v):
    return v is None or (isinstance(v, float) and v != v)


def _close(a, b, rel=1e-9, ab=1e-12):
    if _null(a) or _null(b):
        return _null(a) and _null(b)
    a, b = float(a), float(b)
    return abs(a - b) <= ab + rel * max(abs(a), abs(b))


def _pos_close(a, b):
    return (not _null(a)) and abs(float(a) - b) <= 1e-6 * (1.0 + abs(b))


def _ang_diff(a, b):
    d = (a - b) % TWO_PI
    return min(d, TWO_PI - d)


def _wrap(a):
    """(-2pi, 2pi) -> [-pi, pi] the way the statement words it."""
    if a > math.pi:
        return a - TWO_PI
    if a < -math.pi:
        return a + TWO_PI
    return a


def _table(an):
    """analyzer.df -> (pairs, problems); pairs: {pair_no: {"ground_truth": rec|None, "estimation": rec|None}} in table order."""
    df = an.df
    recs = df.to_dict("records")
    idx = list(df.index)
    pairs, order, problems = {}, [], []
    for k, rec in zip(idx, recs):
        if not (isinstance(k, tuple) and len(k) == 2 and k[1] in KINDS):
            problems.append(f"row index {k!r} is not (pair number, ground_truth|estimation)")
            continue
        i, kind = k
        if i not in pairs:
            pairs[i] = {}
            order.append(i)
        if kind in pairs[i]:
            problems.append(f"pair number {i} has more than one {kind} row")
            continue
        pairs[i][kind] = rec
    for i in order:
        for kind in KINDS:
            if kind not in pairs[i]:
                problems.append(f"pair number {i} has no {kind} row")
    return pairs, order, problems


def _valid(rec):
    return rec is not None and not _null(rec.get("status"))


def _rows(pairs, order, kind):
    """[(pair_no, rec)] of the rows of one kind that hold an object (status not null), table order."""
    return [(i, pairs[i][kind]) for i in order if _valid(pairs[i].get(kind))]


# ------------------------------------------------------------------------------------------------
# expected content of a frame, by descriptor index
# ------------------------------------------------------------------------------------------------


def _expected_items(ctx, f, res, gts_in, ests_in):
    """[(status, gt_index|None, est_index|None)] from the four pass/fail lists."""
    pf = res.pass_fail_result
    items = []

    def ei(o):
        j = MG.index_of(o, ests_in)
        ctx.require(j is not None, "frame-result-object-not-from-input", "an estimate of the frame result is not one of the objects handed in")
        return j

    def gi(o):
        j = MG.index_of(o, gts_in)
        ctx.require(j is not None, "frame-result-object-not-from-input", "a ground truth of the frame result is not one of the frame's objects")
        return j

    for r in pf.tp_object_results:
        items.append(("TP", gi(r.ground_truth_object), ei(r.estimated_object)))
    for r in pf.fp_object_results:
        g = r.ground_truth_object
        items.append(("FP", gi(g) if g is not None else None, ei(r.estimated_object)))
    for g in pf.tn_objects:
        items.append(("TN", gi(g), None))
    for g in pf.fn_objects:
        items.append(("FN", gi(g), None))
    return items


# ------------------------------------------------------------------------------------------------
# the body
# ------------------------------------------------------------------------------------------------


def _body(ctx, d):
    from perception_eval.evaluation.result.perception_frame_result import get_object_status
    from perception_eval.tool import PerceptionAnalyzer3D
    from perception_eval.tool.utils import generate_area_points

    case, sel, nad = d["case"], d["sel"], d["nad"]
    targets = case["targets"]
    ctx.cls("frame_" + case["frame"])
    ctx.cls("task_" + case["task"])
    ctx.cls(f"areas_{nad}")
    ctx.cls(f"scenes_{len(d['split'])}")

    # ---- evaluate every scene with its own manager -------------------------------------------------
    scenes, k = [], 0
    for sz in d["split"]:
        dd = dict(case, frames=case["frames"][k : k + sz])
        k += sz
        run = _run_scene(ctx, dd)
        if run is None:
            return
        scenes.append((dd, run))

    an = None
    with ctx.under_test("PerceptionAnalyzer3D"):
        an = PerceptionAnalyzer3D(scenes[0][1]["mgr"].evaluator_config, num_area_division=nad)
    if an is None:
        return
    added = []
    for dd, run in scenes:
        lst = list(run["results"])
        ok = False
        with ctx.under_test("analyzer.add"), _quiet():
            an.add(lst)
            ok = True
        if not ok:
            return
        added.append(lst)

    # ---- scene keys (the numbering convention itself is not asserted) ----------------------------------
    scene_key = []
    with ctx.under_test("analyzer.frame_results"):
        fr = an.frame_results
        for lst in added:
            keys = [key for key, v in fr.items() if v is lst]
            ctx.require(len(keys) == 1, "scene-not-registered", lambda: f"added frame list is held under keys {keys} of analyzer.frame_results")
            scene_key.append(keys[0] if keys else None)
        ctx.require(an.num_scene == len(added), "num-scene", lambda: f"num_scene {an.num_scene} after {len(added)} add() calls")
        ctx.require(an.num_frame == sum(len(x) for x in added), "num-frame", lambda: f"num_frame {an.num_frame}, frames added {sum(len(x) for x in added)}")

    # ---- table structure ------------------------------------------------------------------------------------
    pairs, order, problems = _table(an)
    ctx.require(not problems, "table-structure", lambda: "; ".join(problems[:4]))
    if problems:
        return
    ctx.require(order == sorted(order) and len(set(order)) == len(order), "table-structure", lambda: f"pair numbers not increasing: {order[:20]}")
    gt_rows = _rows(pairs, order, "ground_truth")
    est_rows = _rows(pairs, order, "estimation")
    for i in order:
        ctx.require(_valid(pairs[i]["ground_truth"]) or _valid(pairs[i]["estimation"]), "empty-row-pair", f"pair {i} holds neither a ground truth nor an estimate")

    # ---- rows vs pass/fail lists, per scene and frame -------------------------------------------------------
    observed = {}  # (scene key, frame) -> [(status, gt uuid, est uuid, pair no)]
    for i in order:
        g, e = pairs[i]["ground_truth"], pairs[i]["estimation"]
        vg, ve = _valid(g), _valid(e)
        ref = g if vg else e
        if vg and ve:
            ctx.require(
                g["status"] == e["status"] and g["scene"] == e["scene"] and g["frame"] == e["frame"],
                "pair-rows-disagree",
                lambda: f"pair {i}: GT row ({g['status']}, scene {g['scene']}, frame {g['frame']}) vs estimate row ({e['status']}, scene {e['scene']}, frame {e['frame']})",
            )
        key = (ref["scene"], ref["frame"])
        observed.setdefault(key, []).append((str(ref["status"]), g["uuid"] if vg else None, e["uuid"] if ve else None, i))

    tot = {"TP": 0, "FP": 0, "TN": 0, "FN": 0}
    n_results = n_crit = n_d12 = 0
    n_fp_gt = n_fp_nogt = 0
    by_pair = {}  # pair no -> (scene idx, frame idx, gt desc|None, est desc|None, status)
    seen_keys = set()
    for s, (dd, run) in enumerate(scenes):
        for i, f in enumerate(dd["frames"]):
            res = run["results"][i]
            items = _expected_items(ctx, f, res, run["gt_lists"][i], run["est_lists"][i])
            guu = {g["uuid"]: j for j, g in enumerate(f["gt"])}
            euu = {e["uuid"]: j for j, e in enumerate(f["est"])}
            exp = sorted(((st_, f["gt"][a]["uuid"] if a is not None else None, f["est"][b]["uuid"] if b is not None else None) for st_, a, b in items), key=str)
            key = (scene_key[s], i)
            seen_keys.add(key)
            obs = observed.get(key, [])
            got = sorted(((a, b, c) for a, b, c, _ in obs), key=str)
            ctx.require(
                got == exp,
                "rows-differ-from-pass-fail-lists",
                lambda: f"scene {s} frame {i}: table row pairs (status, GT, estimate) {got} but pass/fail lists give {exp}",
            )
            for st_, gu, eu, pno in obs:
                by_pair[pno] = (s, i, f["gt"][guu[gu]] if gu in guu else None, f["est"][euu[eu]] if eu in euu else None, st_)
            for st_, a, b in items:
                tot[st_] += 1
                if st_ == "FP":
                    if a is None:
                        n_fp_nogt += 1
                    else:
                        n_fp_gt += 1
                        if f["gt"][a]["label"] != "false_positive":
                            n_d12 += 1
            n_results += len(res.object_results)
            n_crit += len(res.frame_ground_truth.objects)
    extra = sorted(k_ for k_ in observed if k_ not in seen_keys)
    ctx.require(not extra, "rows-for-unknown-frame", lambda: f"table holds rows for (scene, frame) {extra} that were never added")

    # ---- counts ------------------------------------------------------------------------------------------------
    cnt = {s_: 0 for s_ in tot}
    for _, r in est_rows:
        if r["status"] in ("TP", "FP"):
            cnt[r["status"]] += 1
    for _, r in gt_rows:
        if r["status"] in ("TN", "FN"):
            cnt[r["status"]] += 1
    ctx.require(cnt == tot, "status-counts", lambda: f"table status counts {cnt}, pass/fail list sizes {tot}")
    ctx.require(len(est_rows) == n_results, "estimate-row-count", lambda: f"{len(est_rows)} estimate rows, {n_results} evaluated estimates")
    surplus = len(gt_rows) - n_crit
    if surplus == n_d12 and surplus > 0:
        ctx.cls("d12_double_listing")
        ctx.violate(D12, f"{n_crit} critical ground truths but {len(gt_rows)} ground-truth rows: {n_d12} FP result(s) with an ordinary ground truth are tabulated in the FP pair and again in an FN row")
    else:
        ctx.require(surplus == n_d12, "gt-row-count", lambda: f"{len(gt_rows)} ground-truth rows, {n_crit} critical ground truths, {n_d12} explained by the known double listing")

    empty = len(order) == 0
    if empty:
        ctx.cls("empty_table")
    num = None
    try:
        num = {
            "gt": an.num_ground_truth,
            "est": an.num_estimation,
            "TP": an.num_tp,
            "FP": an.num_fp,
            "TN": an.num_tn,
            "FN": an.num_fn,
        }
    except Exception as e:  # noqa: BLE001 - classified below, never swallowed
        if empty and len(an.df) == 0 and isinstance(e, TypeError) and "MultiIndex" in str(e):
            # known finding: exactly the row-less table (nothing tabulated) and exactly this exception
            ctx.violate("empty-table-counts-raise", f"num_* on a table without rows raised {type(e).__name__}: {e}")
        else:
            ctx.violate(f"crash:num_*:{type(e).__name__}", f"num_* raised {type(e).__name__}: {e} (table with {len(order)} row pairs)")
    if num is not None:
        want = {"gt": len(gt_rows), "est": len(est_rows), **cnt}
        ctx.require(num == want, "num-properties", lambda: f"num_* properties {num}, table {want}")
    if empty:
        # analyze() documents the empty case: no data frames
        with ctx.under_test("analyze(empty)"):
            r = an.analyze()
            ctx.require(r.score is None and r.error is None and r.confusion_matrix is None, "analyze-empty", "analyze() on an empty table returned data")
        _object_status(ctx, scenes, get_object_status)
        ctx.mark_nontrivial(False)
        return
    with ctx.under_test("get_status_num"):
        for s_ in ("TP", "FP", "TN", "FN"):
            v = an.get_status_num(s_)
            ctx.require(v == cnt[s_], "num-properties", lambda: f"get_status_num({s_}) = {v}, table {cnt[s_]}")

    if case.get("uuid_mode") in ("none", "shared"):
        # rows are not identifiable by uuid: the accounting above (row pairs per frame as multisets, status counts, estimate /
        # ground-truth row counts, num_* properties) is what is decided for this case
        ctx.cls("ids_" + case["uuid_mode"])
        ctx.mark_nontrivial(len(order) >= 3 and sum(1 for v in tot.values() if v) >= 2)
        return

    # ---- row values (ego frame) ----------------------------------------------------------------------------------
    max_x = float(case["mgr"]["max_x"][0]) if case["mgr"]["kind"] == "xy" else 100.0
    max_y = float(case["mgr"]["max_y"][0]) if case["mgr"]["kind"] == "xy" else 100.0
    ur, bl = generate_area_points(nad, max_x=max_x, max_y=max_y)
    rects = [(min(float(a[0]), float(b[0])), max(float(a[0]), float(b[0])), min(float(a[1]), float(b[1])), max(float(a[1]), float(b[1]))) for a, b in zip(ur, bl)]
    with ctx.under_test("analyzer.upper_rights"):
        same = len(an.upper_rights) == len(ur) and all(_close(p, q) for A, B in ((an.upper_rights, ur), (an.bottom_lefts, bl)) for a, b in zip(A, B) for p, q in zip(a, b))
        ctx.require(same and len(rects) == nad, "area-points", "analyzer area rectangles differ from generate_area_points(num_area_division, max_x, max_y)")

    def containing(x, y):
        """(indices of rectangles strictly containing (x, y), near a border?)"""
        inside, near = [], False
        for j, (x0, x1, y0, y1) in enumerate(rects):
            if min(abs(x - x0), abs(x - x1), abs(y - y0), abs(y - y1)) <= 1e-6:
                near = True
            if x0 < x < x1 and y0 < y < y1:
                inside.append(j)
        return inside, near

    def area_ok(area, o):
        inside, near = containing(o["p"][0], o["p"][1])
        if near:
            return None
        return (not inside) if _null(area) else (int(area) in inside)

    for pno in order:
        s, i, go, eo, st_ = by_pair[pno]
        for kind, o, other in (("ground_truth", go, eo), ("estimation", eo, go)):
            rec = pairs[pno][kind]
            if o is None:
                ctx.require(not _valid(rec), "row-without-object", f"pair {pno}: {kind} row filled although the item has no such object")
                continue
            what = f"pair {pno} ({st_}, scene {s}, frame {i}) {kind} row uuid {o['uuid']}"
            ctx.require(_pos_close(rec["x"], o["p"][0]) and _pos_close(rec["y"], o["p"][1]), "row-position-not-ego-frame", lambda: f"{what} ({case['frame']} frame): x, y = ({rec['x']}, {rec['y']}), ego-frame position {o['p'][:2]}")
            ctx.require(not _null(rec["yaw"]) and _ang_diff(float(rec["yaw"]), o["yaw"]) <= 1e-6, "row-yaw-not-ego-frame", lambda: f"{what} ({case['frame']} frame): yaw {rec['yaw']}, ego-frame yaw {o['yaw']}")
            ctx.require(-math.pi - 1e-9 <= float(rec["yaw"]) <= math.pi + 1e-9, "row-yaw-range", lambda: f"{what}: yaw {rec['yaw']}")
            ctx.require(
                _close(rec["width"], o["size"][0]) and _close(rec["length"], o["size"][1]) and _close(rec["height"], o["size"][2]),
                "row-size",
                lambda: f"{what}: size ({rec['width']}, {rec['length']}, {rec['height']}) vs {o['size']}",
            )
            ctx.require(rec["label"] == o["label"], "row-label", lambda: f"{what}: label {rec['label']!r}, object label {o['label']!r}")
            ctx.require(_close(rec["confidence"], o.get("score", 1.0)), "row-confidence", lambda: f"{what}: confidence {rec['confidence']} vs {o.get('score', 1.0)}")
            ctx.require(rec["frame"] == i and rec["scene"] == scene_key[s], "row-frame-scene", lambda: f"{what}: frame {rec['frame']} scene {rec['scene']}")
            ctx.require(int(rec["timestamp"]) == D.T0 + i * 100_000, "row-timestamp", lambda: f"{what}: timestamp {rec['timestamp']}")
            ctx.require(rec["frame_id"] == case["frame"], "row-frame-id", lambda: f"{what}: frame_id {rec['frame_id']!r}")
            ctx.require(_pos_close(rec["distance"], math.hypot(o["p"][0], o["p"][1])), "row-distance", lambda: f"{what}: distance {rec['distance']} vs {math.hypot(o['p'][0], o['p'][1])}")
            if kind == "ground_truth":
                ctx.require(rec["num_points"] == o.get("pts"), "row-num-points", lambda: f"{what}: num_points {rec['num_points']} vs {o.get('pts')}")
            if o.get("vel") is not None:
                ctx.require(_close(rec["vx"], o["vel"][0]) and _close(rec["vy"], o["vel"][1]) and _close(rec["speed"], math.hypot(o["vel"][0], o["vel"][1])), "row-velocity", lambda: f"{what}: vx, vy, speed = {rec['vx']}, {rec['vy']}, {rec['speed']} vs {o['vel']}")
            else:
                ctx.require(_null(rec["vx"]) and _null(rec["vy"]) and _null(rec["speed"]), "row-velocity", lambda: f"{what}: velocity columns filled for an object without velocity")
            # area: the rectangle with that index contains the position (GT row of a pair: its own or the pair's area)
            own = area_ok(rec["area"], o)
            if kind == "ground_truth" and other is not None:
                pair_area = area_ok(rec["area"], other)
                if own is None or pair_area is None:
                    ctx.boundary()
                else:
                    if own != pair_area:
                        ctx.cls("pair_straddles_area_border")
                    ctx.require(own or pair_area, "row-area", lambda: f"{what}: area {rec['area']} contains neither the GT position {o['p'][:2]} nor the estimate position {other['p'][:2]} (rectangles {rects})")
            elif own is None:
                ctx.boundary()
            else:
                if _null(rec["area"]):
                    ctx.cls("area_none")
                ctx.require(own, "row-area", lambda: f"{what}: area {rec['area']} but position {o['p'][:2]} lies in rectangle(s) {containing(o['p'][0], o['p'][1])[0]} of {rects}")

    # ---- paired rows: errors, summaries, ratios, confusion matrix -------------------------------------------
    _analysis(ctx, an, pairs, order, targets, "all", None, case["policy"])

    # ---- selections ------------------------------------------------------------------------------------------------
    _selections(ctx, an, pairs, order, targets, sel, scene_key, nad, case["policy"])

    # ---- per-object status tallies ---------------------------------------------------------------------------------
    _object_status(ctx, scenes, get_object_status)

    # ---- classification ------------------------------------------------------------------------------------------------
    for name, c in (("has_tp", tot["TP"]), ("has_fp_with_gt", n_fp_gt), ("has_gtless_fp", n_fp_nogt), ("has_fn", tot["FN"]), ("has_tn", tot["TN"])):
        if c:
            ctx.cls(name)
    if any(o.get("vel") is not None for f in case["frames"] for o in f["gt"] + f["est"]):
        ctx.cls("with_velocity")
    if case.get("slope"):
        ctx.cls("map_frame_ego_on_slope")
    if any(f.get("pf_fp") is not None for f in case["frames"]):
        ctx.cls("pass_fail_names_false_positive")
    ctx.mark_nontrivial(tot["TP"] > 0 and n_fp_gt > 0 and n_fp_nogt > 0 and tot["FN"] > 0)


# ------------------------------------------------------------------------------------------------
# errors / summaries / ratios / confusion matrix on a selection of pairs (sel_order None = whole table)
# ------------------------------------------------------------------------------------------------


def _paired(pairs, order):
    return [i for i in order if _valid(pairs[i]["ground_truth"]) and _valid(pairs[i]["estimation"])]


def _col_error(pairs, idx, col):
    out = []
    for i in idx:
        g, e = pairs[i]["ground_truth"], pairs[i]["estimation"]
        if col == "distance":
            out.append(math.hypot(g["x"] - e["x"], g["y"] - e["y"]))
        elif col == "nn_plane":
            ds = [math.dist([float(v) for v in g[k]], [float(v) for v in e[k]]) for k in ("nn_point1", "nn_point2")]
            out.append(sum(ds) / 2.0)
        elif col == "yaw":
            out.append(_wrap(float(g[col]) - float(e[col])))
        else:
            out.append(float(g[col]) - float(e[col]))
    return out


def _summary(errs):
    errs = [v for v in errs if v == v]
    if not errs:
        return None
    n = len(errs)
    avg = math.fsum(errs) / n
    return {
        "average": avg,
        "rms": math.sqrt(math.fsum(v * v for v in errs) / n),
        "std": math.sqrt(math.fsum((v - avg) ** 2 for v in errs) / n),
        "max": max(abs(v) for v in errs),
        "min": min(abs(v) for v in errs),
    }


SUMMARY_COLS = ("x", "y", "yaw", "length", "width", "vx", "vy", "speed", "nn_plane")


def _summary_matches(row, exp):
    for key in ("average", "rms", "std", "max", "min"):
        got = row.get(key)
        if exp is None:
            if not _null(got):
                return False
        elif _null(got) or abs(float(got) - exp[key]) > 1e-9 * max(1.0, abs(exp[key])) + 1e-12:
            return False
    return True


def _analysis(ctx, an, pairs, order, targets, tag, df, policy):
    """`order`: the pair numbers of the selection `df` (None = the whole table)."""
    paired = _paired(pairs, order)
    ctx.cls(f"analysis_{tag}")
    kw = {} if df is None else {"df": df}

    # calculate_error: GT minus estimate of the paired rows, table order
    for col in ("x", "y", "yaw", "width", "length", "distance", "nn_plane", "vx"):
        err = None
        with ctx.under_test(f"calculate_error({col})"):
            err = an.calculate_error(col, **kw)
        if err is None:
            continue
        got = [float(v) for v in err.reshape(-1)] if hasattr(err, "reshape") else list(err)
        exp = _col_error(pairs, paired, col)
        ok = len(got) == len(exp) and all(_close(a, b, 1e-9, 1e-9) if col != "yaw" else (_null(a) and _null(b)) or (not _null(a) and _ang_diff(a, b) <= 1e-9) for a, b in zip(got, exp))
        ctx.require(ok, "calculate-error", lambda: f"[{tag}] calculate_error({col!r}) = {got[:8]} but GT - estimate of the {len(exp)} paired rows = {exp[:8]}")
        if col == "yaw":
            ctx.require(all(-math.pi - 1e-9 <= v <= math.pi + 1e-9 for v in got if v == v), "yaw-error-not-wrapped", lambda: f"[{tag}] yaw errors outside [-pi, pi]: {[v for v in got if abs(v) > math.pi + 1e-9][:4]}")
            if any(abs(float(pairs[i]['ground_truth']['yaw']) - float(pairs[i]['estimation']['yaw'])) > math.pi + 1e-6 for i in paired):
                ctx.cls("yaw_error_needs_wrap")

    # summarize_error
    tab = None
    with ctx.under_test("summarize_error"):
        tab = an.summarize_error(**kw)
    if tab is not None:
        rows = {k_: v for k_, v in zip(tab.index, tab.to_dict("records"))}
        for lab in ["ALL"] + list(targets):
            if lab == "ALL":
                groups = [paired]
            else:
                groups = [[i for i in paired if pairs[i]["ground_truth"]["label"] == lab], [i for i in paired if pairs[i]["estimation"]["label"] == lab]]
            ok_any = False
            detail = ""
            for grp in groups:
                ok = True
                for col in SUMMARY_COLS:
                    row = rows.get((lab, col))
                    if row is None:
                        ok = False
                        detail = f"no row ({lab}, {col})"
                        break
                    exp = _summary(_col_error(pairs, grp, col))
                    if not _summary_matches(row, exp):
                        ok = False
                        detail = f"({lab}, {col}): reported {row}, recomputed from {len(grp)} paired rows {exp}"
                        break
                if ok:
                    ok_any = True
                    break
            ctx.require(ok_any, "summarize-error", lambda: f"[{tag}] {detail}")
        if len(paired) >= 2:
            ctx.cls("error_summary_over_2plus")

    # summarize_ratio
    rt = None
    with ctx.under_test("summarize_ratio"):
        rt = an.summarize_ratio(**kw)
    if rt is not None:
        _check_ratio(ctx, rt, pairs, order, targets, tag, policy)

    # confusion matrix
    cm = "x"
    with ctx.under_test("get_confusion_matrix"):
        bad = sorted({pairs[i][k_]["label"] for i in paired for k_ in KINDS} - set(targets) - {"unknown"})
        try:
            cm = an.get_confusion_matrix(**kw)
        except ValueError as e:
            if bad:
                cm = "x"
                ctx.violate("confusion-matrix-label-outside-targets", f"[{tag}] get_confusion_matrix raised {e} with paired labels {bad} outside target_labels + ['unknown']")
            else:
                raise
    if not isinstance(cm, str):
        if not paired:
            ctx.require(cm is None, "confusion-matrix", f"[{tag}] confusion matrix for a table without paired rows")
        else:
            ctx.require(cm is not None, "confusion-matrix", f"[{tag}] no confusion matrix although {len(paired)} paired rows exist")
            if cm is not None:
                names = list(cm.index)
                vals = {(a, b): int(cm.loc[a, b]) for a in names for b in list(cm.columns)}
                total = sum(vals.values())
                ctx.require(total == len(paired), "confusion-matrix-sum", lambda: f"[{tag}] confusion matrix sums to {total}, paired rows {len(paired)}")
                want = {}
                for i in paired:
                    k_ = (pairs[i]["ground_truth"]["label"], pairs[i]["estimation"]["label"])
                    want[k_] = want.get(k_, 0) + 1
                nz = {k_: v for k_, v in vals.items() if v}
                tr = {(b, a): v for (a, b), v in nz.items()}
                ctx.require(nz == want or tr == want, "confusion-matrix-cells", lambda: f"[{tag}] confusion matrix cells {nz}, (GT label, estimate label) counts of paired rows {want}")
                if any(a != b for a, b in want):
                    ctx.cls("confusion_off_diagonal")


def _check_ratio(ctx, rt, pairs, order, targets, tag, policy):
    rows = {k_: v for k_, v in zip(rt.index, rt.to_dict("records"))}
    gts = [pairs[i]["ground_truth"] for i in order if _valid(pairs[i]["ground_truth"])]
    ests = [pairs[i]["estimation"] for i in order if _valid(pairs[i]["estimation"])]
    for lab in ["ALL"] + list(targets):
        row = rows.get(lab)
        ctx.require(row is not None, "summarize-ratio", f"[{tag}] no ratio row for {lab}")
        if row is None:
            continue
        g = [r for r in gts if lab == "ALL" or r["label"] == lab]
        e = [r for r in ests if lab == "ALL" or r["label"] == lab]
        n = len(g)
        tp = sum(1 for r in e if r["status"] == "TP")
        fp = sum(1 for r in e if r["status"] == "FP")
        exp = {"TP": 0.0, "FP": 0.0, "TN": 0.0, "FN": 0.0}
        if n > 0:
            exp = {
                "TP": tp / n,
                "FP": fp / (tp + fp) if tp + fp else 0.0,
                "TN": sum(1 for r in g if r["status"] == "TN") / n,
                "FN": sum(1 for r in g if r["status"] == "FN") / n,
            }
        for key in ("TP", "FP", "TN", "FN"):
            v = row.get(key)
            ctx.require(not _null(v) and _close(v, exp[key], 1e-12, 1e-12), "summarize-ratio", lambda: f"[{tag}] {key} rate of {lab} = {v}, counts give {exp[key]} ({tp} TP, {fp} FP estimates, {n} GT rows)")
            if not _null(v) and not (-1e-9 <= float(v) <= 1.0 + 1e-9):
                # known finding only in exactly this shape: a per-label TP rate that equals the recomputed quotient
                # (TP estimate rows by ESTIMATE label / GT rows by GT label, asserted just above) under a policy that
                # allows cross-label TPs, with such a TP (estimate labelled `lab`, GT labelled otherwise) in the selection
                cross = [
                    i
                    for i in order
                    if _valid(pairs[i]["ground_truth"]) and _valid(pairs[i]["estimation"]) and pairs[i]["estimation"]["status"] == "TP" and pairs[i]["estimation"]["label"] == lab and pairs[i]["ground_truth"]["label"] != lab
                ]
                if key == "TP" and lab != "ALL" and policy in ("ALLOW_ANY", "ALLOW_UNKNOWN") and cross and _close(v, exp[key], 1e-12, 1e-12):
                    ctx.cls("per_label_tp_rate_above_one")
                    ctx.violate("ratio-outside-unit-interval", f"[{tag}] TP rate of label {lab} = {v}: {tp} TP estimates labelled {lab} (of which {len(cross)} matched to a ground truth of another label under {policy}) over {n} ground truths labelled {lab}")
                else:
                    ctx.violate("ratio-out-of-range", f"[{tag}] {key} rate of {lab} = {v} under policy {policy}")


# ------------------------------------------------------------------------------------------------
# selections
# ------------------------------------------------------------------------------------------------


def _match(rec, key, want):
    v = rec.get(key)
    if isinstance(want, list):
        return any((not _null(v)) and v == w for w in want)
    return (not _null(v)) and v == want


def _selections(ctx, an, pairs, order, targets, sel, scene_key, nad, policy):
    lab = targets[sel["label"] % len(targets)]
    lab2 = targets[sel["label2"] % len(targets)]
    keys = [k_ for k_ in scene_key if k_ is not None]
    scene = keys[sel["scene"] % len(keys)]
    area = sel["area"] % nad
    valid_rows = [(i, kind, pairs[i][kind]) for i in order for kind in KINDS if _valid(pairs[i][kind])]
    _, _, pick = valid_rows[sel["row"] % len(valid_rows)]
    queries = [
        {"label": lab},
        {"label": [lab, lab2]},
        {"scene": scene},
        {"area": area},
        {"frame": sel["frame"] % 4},
        {"status": sel["status"]},
        {"uuid": pick["uuid"]},
        {"label": lab, "scene": scene},
        {"area": area, "status": sel["status"], "label": lab2},
    ]
    if ctx.tier != "thorough":
        # quick tier: three of the nine selections per case (pandas selections cost ~4 ms each)
        queries = [queries[(sel["row"] + 3 * j + j) % len(queries)] for j in range(3)]
    for qn, q in enumerate(queries):
        tag = ",".join(f"{k_}={v}" for k_, v in q.items())
        # get(): whole pairs
        lower = [i for i in order if any(_valid(pairs[i][kind]) and all(_match(pairs[i][kind], k_, v) for k_, v in q.items()) for kind in KINDS)]
        upper = [i for i in order if all(any(_match(pairs[i][kind], k_, v) for kind in KINDS) for k_, v in q.items())]
        got = None
        with ctx.under_test(f"get({'/'.join(q)})"):
            got = an.get(**q)
        if got is not None:
            idx = list(got.index)
            nums = [k_[0] for k_ in idx]
            sel_pairs = sorted(set(nums))
            whole = all(nums.count(i) == 2 for i in sel_pairs) and all(k_[1] in KINDS for k_ in idx)
            ctx.require(whole, "selection-get", lambda: f"get({tag}) returned incomplete row pairs {idx[:10]}")
            ctx.require(
                set(lower) <= set(sel_pairs) <= set(upper),
                "selection-get",
                lambda: f"get({tag}) returned pairs {sel_pairs}; pairs with a row satisfying the selection: {lower}" + ("" if lower == upper else f" (at most {upper})"),
            )
            if lower:
                ctx.cls("selection_nonempty")
        # get_ground_truth / get_estimation: rows
        for kind, fn in (("ground_truth", "get_ground_truth"), ("estimation", "get_estimation")):
            exp = [i for i in order if _valid(pairs[i][kind]) and all(_match(pairs[i][kind], k_, v) for k_, v in q.items())]
            out = None
            with ctx.under_test(f"{fn}({'/'.join(q)})"):
                out = getattr(an, fn)(**q)
                n = (an.get_num_ground_truth if kind == "ground_truth" else an.get_num_estimation)(**q)
                ctx.require(n == len(exp), "selection-rows", lambda: f"get_num_{kind}({tag}) = {n}, rows satisfying the selection {len(exp)}")
            if out is not None:
                ctx.require(list(out.index) == exp, "selection-rows", lambda: f"{fn}({tag}) returned rows {list(out.index)}, rows satisfying the selection {exp}")
        if qn > 0 and ctx.tier != "thorough":
            continue
        with ctx.under_test(f"get_num_tp({'/'.join(q)})"):
            for s_, fn, kind in (("TP", an.get_num_tp, "estimation"), ("FP", an.get_num_fp, "estimation"), ("TN", an.get_num_tn, "ground_truth"), ("FN", an.get_num_fn, "ground_truth")):
                exp_n = sum(1 for i in order if _valid(pairs[i][kind]) and pairs[i][kind]["status"] == s_ and all(_match(pairs[i][kind], k_, v) for k_, v in q.items()))
                v = fn(**q)
                ctx.require(v == exp_n, "selection-rows", lambda: f"get_num_{s_.lower()}({tag}) = {v}, table rows {exp_n}")

    # distance ring: pairs with a row whose distance lies in [lo, hi)
    lo, hi = sel["dist"]
    dvals = [float(r["distance"]) for _, _, r in valid_rows]
    if any(abs(v - lo) <= 1e-9 or abs(v - hi) <= 1e-9 for v in dvals):
        ctx.boundary()
        dist_pairs = None
    else:
        dist_pairs = [i for i in order if any(_valid(pairs[i][kind]) and lo <= float(pairs[i][kind]["distance"]) < hi for kind in KINDS)]
        out = None
        with ctx.under_test("filter_by_distance"):
            out = an.filter_by_distance((lo, hi))
        if out is not None:
            nums = sorted(set(k_[0] for k_ in out.index))
            ctx.require(nums == dist_pairs and len(out) == 2 * len(nums), "selection-distance", lambda: f"filter_by_distance({lo}, {hi}) returned pairs {nums}; pairs with a row in range {dist_pairs}")

    # analyze(selection): same figures as the summaries of the selected sub-table
    how = sel["analyze"]
    kw, sub = {}, None
    if how == "scene":
        kw, sub = {"scene": scene}, [i for i in order if any(_match(pairs[i][kind], "scene", scene) for kind in KINDS)]
    elif how == "area":
        kw, sub = {"area": area}, [i for i in order if any(_match(pairs[i][kind], "area", area) for kind in KINDS)]
    elif how == "label":
        kw, sub = {"label": lab}, [i for i in order if any(_match(pairs[i][kind], "label", lab) for kind in KINDS)]
    elif how == "scene+area":
        kw = {"scene": scene, "area": area}
        sub = [i for i in order if any(_match(pairs[i][kind], "scene", scene) for kind in KINDS) and any(_match(pairs[i][kind], "area", area) for kind in KINDS)]
        one_row = [i for i in order if any(_match(pairs[i][kind], "scene", scene) and _match(pairs[i][kind], "area", area) for kind in KINDS)]
        if one_row != sub:
            sub = None  # the two readings of a two-keyword selection differ: figures not comparable
    elif how == "dist":
        kw, sub = {"distance": (lo, hi)}, dist_pairs
    if sub is None:
        return
    ctx.cls(f"analyze_{how}")
    res = None
    with ctx.under_test(f"analyze({how})"), _quiet():
        res = an.analyze(**kw)
    if res is None:
        return
    if not sub:
        ctx.require(res.score is None and res.error is None and res.confusion_matrix is None, "analyze-selection", f"analyze({kw}) returned figures for an empty selection")
        return
    ctx.cls("analyze_selection_nonempty")
    ctx.require(res.score is not None and res.error is not None, "analyze-selection", f"analyze({kw}) returned nothing although {len(sub)} pairs are selected")
    if res.score is None or res.error is None:
        return
    # the same figures as the explicit summaries over the selected sub-table
    df = None
    with ctx.under_test("get(selection)"):
        df = an.get(**{k_: v for k_, v in kw.items() if k_ != "distance"})
        if "distance" in kw:
            df = an.filter_by_distance(kw["distance"], df)
    if df is None:
        return
    _check_ratio(ctx, res.score, pairs, sub, targets, f"analyze({how})", policy)
    paired = _paired(pairs, sub)
    rows = {k_: v for k_, v in zip(res.error.index, res.error.to_dict("records"))}
    for col in SUMMARY_COLS:
        row = rows.get(("ALL", col))
        exp = _summary(_col_error(pairs, paired, col))
        ctx.require(row is not None and _summary_matches(row, exp), "analyze-selection", lambda: f"analyze({kw}).error (ALL, {col}) = {row}, recomputed over the {len(paired)} paired rows of the selection {exp}")
    cm = res.confusion_matrix
    if paired:
        ctx.require(cm is not None and int(cm.to_numpy().sum()) == len(paired), "analyze-selection", lambda: f"analyze({kw}).confusion_matrix sums to {None if cm is None else int(cm.to_numpy().sum())}, paired rows {len(paired)}")
    else:
        ctx.require(cm is None, "analyze-selection", f"analyze({kw}).confusion_matrix without paired rows")
    if sel["row"] % 3 == 0:
        _analysis(ctx, an, pairs, sub, targets, "selection", df, policy)


# ------------------------------------------------------------------------------------------------
# get_object_status
# ------------------------------------------------------------------------------------------------


def _object_status(ctx, scenes, get_object_status):
    for s, (dd, run) in enumerate(scenes):
        infos = None
        with ctx.under_test("get_object_status"):
            infos = get_object_status(list(run["results"]))
        if infos is None:
            continue
        exp, extra = {}, {}
        n_crit = 0
        for i, f in enumerate(dd["frames"]):
            res = run["results"][i]
            n_crit += len(res.frame_ground_truth.objects)
            for st_, a, b in _expected_items(ctx, f, res, run["gt_lists"][i], run["est_lists"][i]):
                if a is None:
                    continue
                u = f["gt"][a]["uuid"]
                if st_ == "FP" and f["gt"][a]["label"] != "false_positive":
                    extra.setdefault(u, []).append(i)  # also listed FN: the known double listing
                else:
                    exp.setdefault(u, {"TP": [], "FP": [], "TN": [], "FN": []})[st_].append(i)
        uu = [x.uuid for x in infos]
        ctx.require(len(set(uu)) == len(uu), "object-status-duplicate-uuid", lambda: f"scene {s}: uuids listed more than once: {sorted(uu)}")
        got = {}
        for x in infos:
            got[x.uuid] = {"TP": sorted(x.tp_frame_nums), "FP": sorted(x.fp_frame_nums), "TN": sorted(x.tn_frame_nums), "FN": sorted(x.fn_frame_nums), "total": sorted(x.total_frame_nums)}
        want_plain, want_d12 = {}, {}
        for u in set(exp) | set(extra):
            e = exp.get(u, {"TP": [], "FP": [], "TN": [], "FN": []})
            want_plain[u] = dict({k_: sorted(v) for k_, v in e.items()}, total=sorted(e["TP"] + e["FP"] + e["TN"] + e["FN"]))
            e2 = dict(e, FP=e["FP"] + extra.get(u, []))
            want_d12[u] = dict({k_: sorted(v) for k_, v in e2.items()}, total=sorted(e2["TP"] + e2["FP"] + e2["TN"] + e2["FN"]))
        n_total = sum(len(v["total"]) for v in got.values())
        n_extra = sum(len(v) for v in extra.values())
        if got == want_plain:
            ctx.require(n_total == n_crit, "object-status-count", lambda: f"scene {s}: {n_total} status records, {n_crit} critical ground truths")
        elif n_extra > 0 and got == want_d12 and n_total - n_crit == n_extra:
            ctx.violate(D12, f"scene {s}: get_object_status records {n_total} statuses for {n_crit} critical ground truths: {n_extra} ground truth(s) of FP results are recorded FP and again FN in the same frame")
        else:
            diff = {u: (got.get(u), want_plain.get(u)) for u in set(got) | set(want_plain) if got.get(u) != want_plain.get(u)}
            ctx.violate("object-status-tally", f"scene {s}: get_object_status differs from the pass/fail lists (uuid: recorded, expected): {dict(list(diff.items())[:3])}")


# ------------------------------------------------------------------------------------------------
# sub-checks
# ------------------------------------------------------------------------------------------------


@CHECK.given("tables", lambda tier: analyzer_cases(tier), quick=140, thorough=3200)
def tables(ctx, d):
    _body(ctx, d)


@CHECK.given("tracking_tables", lambda tier: analyzer_cases(tier, histories=True), quick=35, thorough=1200)
def tracking_tables(ctx, d):
    _body(ctx, d)
