"""C20 — configuration strings parse to the enum member they name.

Domain: every (parser, member) pair, exhaustively, in the spellings the parser documents; every
string-or-enum call site; generated non-member strings (random unicode, edits and case variants of
member values/names).  Oracle: parse(member.value) *is* the member; a non-member string is rejected
(exception), yields no member (None) or the documented fallback; where a parser documents upper/lower-case
spellings (FrameID, MatchingLabelPolicy) another letter case of a member's value/name may give that member;
both spellings at a call site behave identically.
"""
import itertools

from hypothesis import strategies as st

from vlib.harness import Check

CHECK = Check(
    "C20",
    rule=(
        "members: every (parser, member, spelling) triple, enumerated completely; call sites: every FrameID pair "
        "x spelling for TransformKey/TransformDict/HomogeneousMatrix, every ShapeType for Shape, every task x "
        "prefix x merge for LabelConverter; case_variants: every (parser without documented letter-case handling, member, "
        "upper/title/capitalize/swapcase/NAME/name) spelling that is not itself a value; non-member strings from Hypothesis (unicode text, 1-edit and case "
        "variants of member values and names). Non-trivial = a (parser, member, spelling) triple or call-site "
        "combination, or a generated string that is not the value of any member of the parser's enum; distinct by "
        "descriptor hash."
    ),
    assumptions=[
        "'rejected' is read as: an exception, or no member at all (None); a string that spells a member's value or "
        "name in another letter case counts as a member spelling only for the parsers that document it "
        "(FrameID.from_value, MatchingLabelPolicy.from_str) and as 'any other string' for the rest",
        "documented fallback: Visibility.UNAVAILABLE for unknown visibility levels",
    ],
    design_ref="§6 C20",
)


def _parsers():
    from perception_eval.common.evaluation_task import EvaluationTask, set_task
    from perception_eval.common.schema import FrameID, SensorModality, Visibility
    from perception_eval.common.shape import ShapeType
    from perception_eval.evaluation.matching.object_matching import MatchingLabelPolicy

    return {
        "EvaluationTask.from_value": (EvaluationTask, EvaluationTask.from_value, ["value", "str"], None),
        "set_task": (EvaluationTask, set_task, ["value", "str"], None),
        "FrameID.from_value": (FrameID, FrameID.from_value, ["value", "str", "upper", "lower"], None),
        "Visibility.from_value": (Visibility, Visibility.from_value, ["value", "str"], "UNAVAILABLE"),
        "SensorModality.from_value": (SensorModality, SensorModality.from_value, ["value", "str"], None),
        "ShapeType.from_value": (ShapeType, ShapeType.from_value, ["value", "str"], None),
        "MatchingLabelPolicy.from_str": (MatchingLabelPolicy, MatchingLabelPolicy.from_str, ["value", "upper", "lower"], None),
    }


PARSER_NAMES = [
    "EvaluationTask.from_value",
    "set_task",
    "FrameID.from_value",
    "Visibility.from_value",
    "SensorModality.from_value",
    "ShapeType.from_value",
    "MatchingLabelPolicy.from_str",
]

VIS_ALIASES = {"v0-40": "NONE", "v40-60": "PARTIAL", "v60-80": "MOST", "v80-100": "FULL"}


def _spell(member, how):
    if how == "value":
        return member.value
    if how == "str":
        return str(member)
    if how == "upper":
        return member.value.upper()
    if how == "lower":
        return member.value.lower()
    raise AssertionError(how)


# ------------------------------------------------------------------------------------------------
# exhaustive: (parser, member, spelling)
# ------------------------------------------------------------------------------------------------


def gen_members(tier):
    ps = _parsers()
    for pname in PARSER_NAMES:
        enum_cls, _, spellings, _ = ps[pname]
        for m in enum_cls:
            for how in spellings:
                yield {"parser": pname, "member": m.name, "spelling": how}
    for alias, name in VIS_ALIASES.items():
        yield {"parser": "Visibility.from_value", "alias": alias, "member": name}
        yield {"parser": "Visibility.from_alias", "alias": alias, "member": name}


@CHECK.enum("members", gen_members)
def members(ctx, d):
    ctx.mark_nontrivial()
    ps = _parsers()
    if "alias" in d:
        from perception_eval.common.schema import Visibility

        fn = Visibility.from_value if d["parser"] == "Visibility.from_value" else Visibility.from_alias
        with ctx.under_test(f"{d['parser']}(alias)"):
            got = fn(d["alias"])
            ctx.require(
                got is Visibility[d["member"]],
                f"alias:{d['parser']}",
                f"{d['parser']}({d['alias']!r}) returned {got!r}, expected Visibility.{d['member']}",
            )
        return
    enum_cls, fn, _, _ = ps[d["parser"]]
    m = enum_cls[d["member"]]
    s = _spell(m, d["spelling"])
    ctx.cls(d["parser"])
    with ctx.under_test(f"{d['parser']}"):
        got = fn(s)
        ctx.require(
            got is m,
            f"member-not-returned:{d['parser']}",
            f"{d['parser']}({s!r}) returned {got!r} ({type(got).__name__}), expected the member {enum_cls.__name__}.{m.name}",
        )


# ------------------------------------------------------------------------------------------------
# exhaustive: other letter cases of a member's value / name, for parsers that do not document them
# ------------------------------------------------------------------------------------------------


def gen_case_variants(tier):
    ps = _parsers()
    for pname in PARSER_NAMES:
        enum_cls, _, spellings, _ = ps[pname]
        if "upper" in spellings or "lower" in spellings:
            continue
        values = {m.value for m in enum_cls}
        for m in enum_cls:
            for how in ("upper", "title", "capitalize", "swapcase", "name", "name_lower"):
                base = m.name if how.startswith("name") else m.value
                s_ = {"upper": base.upper(), "title": base.title(), "capitalize": base.capitalize(), "swapcase": base.swapcase(), "name": base, "name_lower": base.lower()}[how]
                if s_ not in values and s_ not in VIS_ALIASES:
                    yield {"parser": pname, "member": m.name, "how": how, "s": s_}


@CHECK.enum("case_variants", gen_case_variants)
def case_variants(ctx, d):
    ctx.mark_nontrivial()
    enum_cls, fn, _, fallback = _parsers()[d["parser"]]
    ctx.cls(d["parser"])
    try:
        got = fn(d["s"])
    except Exception:  # noqa: BLE001 -- rejection is the expected outcome
        ctx.cls("rejected")
        return
    ok = got is None or (fallback is not None and got is enum_cls[fallback])
    ctx.cls("none_or_fallback" if ok else "accepted")
    ctx.require(
        ok,
        f"nonmember-accepted:{d['parser']}",
        f"{d['parser']}({d['s']!r}) returned {got!r}: not the value of any member and this parser documents no other letter case; allowed: exception, None{', ' + fallback if fallback else ''}",
    )


# ------------------------------------------------------------------------------------------------
# exhaustive: strings that merely LOOK like one of the four documented visibility aliases
# ------------------------------------------------------------------------------------------------


def gen_alias_lookalikes(tier):
    seen = set()
    nums = [0, 10, 20, 40, 60, 80, 100]
    cands = [f"v{a}-{b}" for a in nums for b in nums]
    for al in VIS_ALIASES:
        cands += [al + " ", " " + al, al + "%", al + " (x)", al.upper(), al + "0", "x" + al, al.replace("-", "_"), al.replace("v", "v0"), al + "-1"]
    for c in cands:
        if c not in VIS_ALIASES and c not in seen:
            seen.add(c)
            yield {"s": c}


@CHECK.enum("alias_lookalikes", gen_alias_lookalikes)
def alias_lookalikes(ctx, d):
    from perception_eval.common.schema import Visibility

    ctx.mark_nontrivial()
    for name, fn in (("Visibility.from_value", Visibility.from_value), ("Visibility.from_alias", Visibility.from_alias)):
        try:
            got = fn(d["s"])
        except Exception:  # noqa: BLE001 -- rejection is an allowed outcome
            ctx.cls("rejected")
            continue
        ok = got is None or got is Visibility.UNAVAILABLE
        ctx.cls("fallback" if ok else "accepted")
        ctx.require(ok, f"nonmember-accepted:{name}", f"{name}({d['s']!r}) returned {got!r}: neither a member value nor one of the documented aliases {sorted(VIS_ALIASES)}; allowed: exception, None, UNAVAILABLE")


# ------------------------------------------------------------------------------------------------
# exhaustive: string-or-enum call sites
# ------------------------------------------------------------------------------------------------


def gen_callsites(tier):
    from perception_eval.common.evaluation_task import EvaluationTask
    from perception_eval.common.schema import FrameID
    from perception_eval.common.shape import ShapeType

    for t in ShapeType:
        yield {"site": "Shape", "member": t.name}
    names = [m.name for m in FrameID]
    for a, b in itertools.product(names, names):
        for how in ("value", "upper"):
            yield {"site": "TransformKey", "src": a, "dst": b, "spelling": how}
    for a in names:
        for how in ("value", "upper"):
            yield {"site": "HomogeneousMatrix", "src": a, "dst": "MAP" if a != "MAP" else "BASE_LINK", "spelling": how}
    for t in EvaluationTask:
        for prefix in ("autoware", "traffic_light"):
            for merge in (False, True):
                yield {"site": "LabelConverter", "task": t.name, "prefix": prefix, "merge": merge}
    for t in EvaluationTask:
        yield {"site": "FrameID.from_task", "task": t.name}
        yield {"site": "set_task_lists", "task": t.name}


@CHECK.enum("callsites", gen_callsites)
def callsites(ctx, d):
    import numpy as np
    from perception_eval.common.evaluation_task import EvaluationTask, set_task_dict, set_task_lists
    from perception_eval.common.label import LabelConverter
    from perception_eval.common.schema import FrameID
    from perception_eval.common.shape import Shape, ShapeType
    from perception_eval.common.transform import HomogeneousMatrix, TransformDict, TransformKey

    ctx.mark_nontrivial()
    ctx.cls(d["site"])
    site = d["site"]
    if site == "Shape":
        m = ShapeType[d["member"]]
        size = (1.5, 4.0, 2.0)
        fp = None
        if m.name == "POLYGON":
            from shapely.geometry import Polygon

            fp = Polygon([(1, 1, 0), (-1, 1, 0), (-1, -1, 0), (1, -1, 0)])
        a = Shape(m, size, fp)  # enum spelling: reference behaviour
        with ctx.under_test("Shape(str)"):
            b = Shape(m.value, size, fp)
            ctx.require(
                b.type is a.type and tuple(b.size) == tuple(a.size) and b.footprint.equals(a.footprint),
                "callsite:Shape",
                f"Shape({m.value!r},..) differs from Shape({m},..): type {b.type!r} vs {a.type!r}",
            )
    elif site == "TransformKey":
        ms, md = FrameID[d["src"]], FrameID[d["dst"]]
        ss, sd = _spell(ms, d["spelling"]), _spell(md, d["spelling"])
        ke = TransformKey(ms, md)
        with ctx.under_test("TransformKey(str,str)"):
            ks = TransformKey(ss, sd)
            ctx.require(ks.src is ms and ks.dst is md, "callsite:TransformKey", f"TransformKey({ss!r},{sd!r}) -> {ks!r}")
            ctx.require(ks == ke and hash(ks) == hash(ke), "callsite:TransformKey-eq-hash", f"{ks!r} vs {ke!r}")
        # mixed spellings: one frame as a string, the other as the member (and a non-member string beside a member)
        for a1, a2, what in ((ss, md, "(str, member)"), (ms, sd, "(member, str)")):
            with ctx.under_test(f"TransformKey{what}"):
                km = TransformKey(a1, a2)
                ctx.require(km.src is ms and km.dst is md, "callsite:TransformKey-mixed", f"TransformKey({a1!r}, {a2!r}) -> src {km.src!r} / dst {km.dst!r}, expected the members {ms!r} / {md!r}")
                ctx.require(km == ke and hash(km) == hash(ke), "callsite:TransformKey-mixed-eq-hash", f"TransformKey({a1!r}, {a2!r}) is not equal to / hashes differently from {ke!r}")
        for a1, a2 in (("no_such_frame", md), (ms, "no_such_frame")):
            try:
                bad = TransformKey(a1, a2)
            except Exception:  # noqa: BLE001 -- rejection is the expected outcome
                bad = None
            ctx.require(bad is None, "callsite:TransformKey-nonmember-accepted", f"TransformKey({a1!r}, {a2!r}) was accepted: {bad!r}")
        if ms is not md:
            mat = HomogeneousMatrix((1.0, 2.0, 3.0), (1.0, 0.0, 0.0, 0.0), src=ms, dst=md)
            td = TransformDict(mat)
            p = (0.5, -1.0, 2.0)
            ref = td.transform((ms, md), p)
            with ctx.under_test("TransformDict.transform(str key)"):
                got = td.transform((ss, sd), p)
                ctx.require(np.allclose(got, ref, atol=0, rtol=0), "callsite:TransformDict-key", f"{got} vs {ref}")
                got2 = td.transform(TransformKey(ss, sd), p)
                ctx.require(np.allclose(got2, ref, atol=0, rtol=0), "callsite:TransformDict-key", f"{got2} vs {ref}")
                for k_ in ((ss, md), (ms, sd), [ss, md]):
                    got3 = td.transform(k_, p)
                    ctx.require(np.allclose(got3, ref, atol=0, rtol=0), "callsite:TransformDict-key-mixed", f"transform with key {k_!r}: {got3} vs {ref}")
            # lookups by name must find what was registered under the enum members (and vice versa)
            with ctx.under_test("TransformDict.get / [] (str key)"):
                ctx.require(td.get((ss, sd)) is mat and td[(ss, sd)] is mat, "callsite:TransformDict-get", f"get/[] with ({ss!r}, {sd!r}) did not return the matrix registered for ({ms}, {md})")
                ctx.require(td.get([ss, sd]) is mat and td.get(TransformKey(ss, sd)) is mat, "callsite:TransformDict-get", f"get with list / TransformKey spelling of ({ss!r}, {sd!r})")
            td2 = TransformDict()
            with ctx.under_test("TransformDict.__setitem__ (str key)"):
                td2[(ss, sd)] = mat
                ctx.require(td2.get((ms, md)) is mat and td2[(ms, md)] is mat, "callsite:TransformDict-set", f"matrix registered under ({ss!r}, {sd!r}) is not found under ({ms}, {md})")
    elif site == "HomogeneousMatrix":
        ms, md = FrameID[d["src"]], FrameID[d["dst"]]
        ss, sd = _spell(ms, d["spelling"]), _spell(md, d["spelling"])
        with ctx.under_test("HomogeneousMatrix(src=str)"):
            h = HomogeneousMatrix((1.0, 2.0, 3.0), (1.0, 0.0, 0.0, 0.0), src=ss, dst=sd)
            ctx.require(h.src is ms and h.dst is md, "callsite:HomogeneousMatrix", f"src/dst {h.src!r}/{h.dst!r}")
    elif site == "LabelConverter":
        t = EvaluationTask[d["task"]]
        a = LabelConverter(t, d["merge"], d["prefix"])
        with ctx.under_test("LabelConverter(str task)"):
            b = LabelConverter(t.value, d["merge"], d["prefix"])
            ctx.require(
                b.evaluation_task is t
                and [(i.label, i.name) for i in a.label_infos] == [(i.label, i.name) for i in b.label_infos],
                "callsite:LabelConverter",
                f"LabelConverter({t.value!r}) differs from LabelConverter({t!r})",
            )
    elif site == "FrameID.from_task":
        t = EvaluationTask[d["task"]]

        def outcome(x):
            try:
                return ("ok", FrameID.from_task(x))
            except Exception as e:  # noqa: BLE001
                return ("exc", type(e).__name__)

        a, b = outcome(t), outcome(t.value)
        ctx.require(a == b and (a[0] == "exc" or a[1] is b[1]), "callsite:FrameID.from_task", f"{a} vs {b}")
    elif site == "set_task_lists":
        t = EvaluationTask[d["task"]]
        with ctx.under_test("set_task_lists/set_task_dict"):
            lst = set_task_lists([t.value])
            ctx.require(len(lst) == 1 and lst[0] is t, "callsite:set_task_lists", f"{lst!r}")
            dd = set_task_dict({t.value: {"a": 1}})
            ctx.require(list(dd.keys()) == [t] and list(dd.keys())[0] is t, "callsite:set_task_dict", f"{dd!r}")


# ------------------------------------------------------------------------------------------------
# generated non-member strings
# ------------------------------------------------------------------------------------------------


def _all_words():
    ps = _parsers()
    words = set()
    for pname in PARSER_NAMES:
        for m in ps[pname][0]:
            words.add(m.value)
            words.add(m.name)
    words.update(VIS_ALIASES)
    return sorted(words)


def strat_strings(tier):
    words = _all_words()
    word = st.sampled_from(words)

    @st.composite
    def edited(draw):
        w = draw(word)
        op = draw(st.sampled_from(["case", "del", "ins", "sub", "swapcase", "pad", "title"]))
        if op == "case":
            mask = draw(st.lists(st.booleans(), min_size=len(w), max_size=len(w)))
            return "".join(c.upper() if b else c.lower() for c, b in zip(w, mask))
        if op == "swapcase":
            return w.swapcase()
        if op == "title":
            return w.title()
        if op == "pad":
            return draw(st.sampled_from([" " + w, w + " ", w + "\n", "\t" + w]))
        i = draw(st.integers(0, max(0, len(w) - 1)))
        c = draw(st.sampled_from("abz_-0 .X"))
        if op == "del":
            return w[:i] + w[i + 1 :]
        if op == "ins":
            return w[:i] + c + w[i:]
        return w[:i] + c + w[i + 1 :]

    s = st.one_of(edited(), st.text(max_size=12), word)
    return st.tuples(st.sampled_from(PARSER_NAMES), s).map(lambda t: {"parser": t[0], "s": t[1]})


@CHECK.given("nonmember_strings", strat_strings, quick=1500, thorough=64000)
def nonmember_strings(ctx, d):
    ps = _parsers()
    enum_cls, fn, spellings, fallback = ps[d["parser"]]
    s = d["s"]
    by_value = {m.value: m for m in enum_cls}
    ctx.cls(d["parser"])
    try:
        got = fn(s)
        exc = None
    except Exception as e:  # noqa: BLE001 -- rejection is an allowed outcome for non-members
        got, exc = None, e
    if s in by_value:
        # a member's own value: must give the member (same oracle as the exhaustive part)
        ctx.cls("member_value")
        ctx.require(
            exc is None and got is by_value[s],
            f"member-not-returned:{d['parser']}",
            f"{d['parser']}({s!r}) -> {got!r} / {type(exc).__name__ if exc else None}",
        )
        return
    ctx.mark_nontrivial()
    if exc is not None:
        ctx.cls("rejected")
        return
    if got is None:
        ctx.cls("none")
        return
    # another letter case of a member's value / name is a member spelling only where the parser documents it
    # (FrameID.from_value, MatchingLabelPolicy.from_str); everywhere else it is "any other string"
    allowed = [m for m in enum_cls if s.lower() in (m.value.lower(), m.name.lower())] if ("upper" in spellings or "lower" in spellings) else []
    if d["parser"].startswith("Visibility") and s in VIS_ALIASES:
        allowed.append(enum_cls[VIS_ALIASES[s]])
    if fallback is not None:
        allowed.append(enum_cls[fallback])
    ok = any(got is m for m in allowed)
    ctx.cls("fallback_or_case_variant" if ok else "wrong")
    ctx.require(
        ok,
        f"nonmember-accepted:{d['parser']}",
        f"{d['parser']}({s!r}) returned {got!r} ({type(got).__name__}); allowed: exception, None, {allowed!r}",
    )
