"""C17 — ground-truth lookup picks the nearest frame in tolerance; interpolation is exact.

Sub-checks
  lookup   : random timelines x query (before / on / between / after) x tolerance, both entry-point families
             (module functions, or a real PerceptionEvaluationManager whose ground_truth_frames are replaced)
  interp   : same oracle, generator biased towards "query between/on two frames that are both within tolerance"
             with shared and unshared uuids and related orientations (small change, equal, half turn, sign flip)
  grid     : exhaustive — every non-empty subset of the time points {0,1,2,4,7} x every query in -2..9 x every
             tolerance in {0,1,2,3,10}: lookup decisions (which frame / None / interpolate) only
"""
import contextlib
import itertools
import math

from hypothesis import strategies as st

from vlib import desc as D
from vlib import gen as GEN
from vlib import ref_geom as G
from vlib import ref_interp as R
from vlib.harness import Check, proc_tmp

CHECK = Check(
    "C17",
    rule=(
        "time-ordered frame lists (1-8 frames, thorough 1-12; strictly increasing unix times near 1.6e15 us, gaps 1 us .. 5 s) "
        "built by hand with desc.frame_gt (objects in base_link or map, per-frame ego pose with |translation| <= 1e4 and any "
        "yaw, per-frame subset of a uuid pool so ids appear/disappear); query constructed before / exactly on / strictly "
        "between / after frames; tolerance from {0, exactly dt of a neighbour, that +-1, small, 75000, up to the span, "
        "larger than the span}. Both lookups are called on every case, through the module functions or a real manager. "
        "Non-trivial = (query strictly between two frames both within tolerance with >=1 shared and >=1 unshared uuid) "
        "or (query outside the frame span); distinct by descriptor hash."
    ),
    assumptions=[
        "P7: frame lists are strictly increasing in time (loader order); uuids unique within a frame",
        "P6: an instance occurring in more than one frame carries a velocity (single-sample instances may have None)",
        "tolerance gate follows the docstring: dt > threshold => not available, dt == threshold is within tolerance (integer us, exact)",
        "exact |dt| ties of the nearest lookup: either tied frame accepted",
        "positions compared in map coordinates with 1e-6*(1+|p|); orientations with 1e-9 rad, plus 0.01*A^3 (<= 3.5e-6 rad) when "
        "the two poses differ by A < 0.07 rad (pyquaternion uses normalised lerp there: same arc, proportional position off by "
        "<= 0.004*A^3); poses exactly half a turn apart (|<q1,q2>| < 1e-6): arc direction not asserted (boundary)",
        "unshared objects: asserted present exactly once with the pose they have in their neighbour (\"kept\")",
        "the interpolated ego transform, velocities, frame_name and raw_data of the new frame are not asserted (not in the statement)",
    ],
    design_ref="§6 C17",
)

PI = math.pi
UUIDS = ["u0", "u1", "u2", "u3", "u4", "u5"]
LABELS = ["car", "bicycle", "pedestrian", "truck"]
GAPS = [1, 1, 2, 3, 5, 10, 100, 1000, 10_000, 50_000, 100_000, 100_000, 1_000_000, 5_000_000]
DIST = [1, 2, 3, 10, 100, 1000, 10_000, 74_999, 75_000, 75_001, 1_000_000, 10_000_000]
ROT_TOL = 1e-9
HALF_TURN_DOT = 1e-6


# ------------------------------------------------------------------------------------------------
# generators
# ------------------------------------------------------------------------------------------------


def _ego():
    near = st.tuples(GEN.fl(-50, 50), GEN.fl(-50, 50), GEN.yaws())
    far = st.tuples(GEN.fl(-1e4, 1e4), GEN.fl(-1e4, 1e4), GEN.yaws())
    return st.one_of(near, far, far).map(list)


_EGO = _ego()
_OBJ = st.tuples(
    GEN.fl(-120, 120),
    GEN.fl(-120, 120),
    GEN.fl(-3, 3),
    GEN.yaws(),
    GEN.qsigns(),
    GEN.fl(-0.1, 0.1),
    GEN.fl(-0.1, 0.1),
    st.booleans(),
    GEN.fl(-20, 20),
    GEN.fl(-20, 20),
    GEN.fl(-0.06, 0.06),
    st.sampled_from([-1e-3, 1e-3, -1e-5, 1e-5]),
)
_INST = st.tuples(
    st.sampled_from(LABELS),
    GEN.fl(0.3, 3.0),
    GEN.fl(0.3, 12.0),
    GEN.fl(0.3, 4.0),
    st.sampled_from(["rand", "rand", "small", "same", "half_turn", "near_half"]),
    st.integers(0, 4),
)
_GAP = st.one_of(st.sampled_from(GAPS), st.integers(1, 200_000))
_FAR = st.one_of(st.sampled_from(DIST), st.integers(1, 200_000))
_PRESENCE = {k: st.tuples(*[st.integers(0, 3)] * k) for k in range(1, len(UUIDS) + 1)}


@st.composite
def timelines(draw, tier="quick", focus=False):
    max_n = 8 if tier == "quick" else 12
    n = draw(st.sampled_from(list(range(2 if focus else 1, max_n + 1))))
    t0 = draw(st.integers(0, 10**7))
    gaps = [0] + [draw(_GAP) for _ in range(n - 1)]
    times = []
    acc = t0
    for g in gaps:
        acc += g
        times.append(acc)

    # ---- query time (by construction) ---------------------------------------------------------
    kinds = ["before", "on", "between", "between", "after"] if not focus else ["between", "between", "between", "on"]
    kind = draw(st.sampled_from(kinds))
    if kind == "between" and n == 1:
        kind = draw(st.sampled_from(["before", "after", "on"]))
    if kind == "before":
        qi = 0
        q = times[0] - draw(_FAR)
    elif kind == "after":
        qi = n - 1
        q = times[-1] + draw(_FAR)
    elif kind == "on":
        qi = draw(st.integers(0, n - 1 if not focus else n - 2))
        q = times[qi]
    else:
        qi = draw(st.integers(0, n - 2))
        g = times[qi + 1] - times[qi]
        if g == 1:
            q = times[qi]  # no integer strictly between
        else:
            off = draw(st.one_of(st.sampled_from([1, g - 1, g // 2, (g + 1) // 2]), st.integers(1, g - 1)))
            q = times[qi] + min(max(off, 1), g - 1)

    # ---- objects: instances (label, size, velocity) and per-frame presence / pose --------------
    k = draw(st.sampled_from([1, 2, 3, 3, 4, 5, 6] if not focus else [2, 3, 3, 4, 5, 6]))
    pool = UUIDS[:k]
    inst = {}
    for u in pool:
        lab, w, l, h, yk, tilt = draw(_INST)
        # static: an object that keeps position and velocity in every frame and only turns (turning on the spot)
        inst[u] = {"label": lab, "size": [w, l, h], "yaw_kind": yk, "tilt": tilt == 0, "static": (w * 1000) % 4 < 1}
    # frames around the query are densely populated (3/4 per uuid), the others sparsely (1/4): they only matter as
    # wrong candidates of the lookup, and every object costs ~10 draws
    presence = []
    for i in range(n):
        coins = draw(_PRESENCE[k])
        presence.append([u for u, c in zip(pool, coins) if (c > 0) == (qi - 1 <= i <= qi + 2)])
    occurrences = {u: sum(1 for fr in presence if u in fr) for u in pool}
    frame = draw(st.sampled_from(["base_link", "map"]))
    frames = []
    last_yaw = {}
    first_state = {}
    for i in range(n):
        objs = []
        for u in presence[i]:
            meta = inst[u]
            yk = meta["yaw_kind"]
            # one draw per object (strategy-level overhead dominates generation time); not every field is used
            px, py, pz, yaw_r, qs, pitch, roll, has_vel, vx, vy, dyaw, eps = draw(_OBJ)
            if u not in last_yaw or yk == "rand":
                yaw = yaw_r
            elif yk == "small":
                yaw = G.wrap(last_yaw[u] + dyaw)
            elif yk == "same":
                yaw = last_yaw[u]
            elif yk == "half_turn":
                yaw = G.wrap(last_yaw[u] + PI)
            else:
                yaw = G.wrap(last_yaw[u] + PI + eps)
            last_yaw[u] = yaw
            o = {"uuid": u, "p": [px, py, pz], "yaw": yaw, "qs": qs, "size": meta["size"], "label": meta["label"]}
            if meta["tilt"]:
                o["pr"] = [pitch, roll]
            # P6: instances seen in several samples always have a velocity
            if occurrences[u] >= 2 or has_vel:
                o["vel"] = [vx, vy, 0.0]
            if meta["static"]:
                if u in first_state:
                    o["p"] = list(first_state[u][0])
                    if first_state[u][1] is not None:
                        o["vel"] = list(first_state[u][1])
                    else:
                        o.pop("vel", None)
                else:
                    first_state[u] = (list(o["p"]), list(o["vel"]) if "vel" in o else None)
            objs.append(o)
        frames.append({"gap": gaps[i], "ego": draw(_EGO), "objs": objs})

    # ---- tolerance ----------------------------------------------------------------------------
    b, a = R.neighbours(times, q)
    db = q - times[b] if b is not None else None
    da = times[a] - q if a is not None else None
    span = times[-1] - times[0]
    reach = max(abs(q - times[0]), abs(times[-1] - q))
    exact = [v for v in (db, da) if v is not None]
    around = sorted({max(0, v + e) for v in exact for e in (-1, 0, 1)})
    both = max(exact)
    if focus:
        tol = draw(
            st.one_of(
                st.sampled_from([both, both, both + 1, max(0, both - 1), 75_000, reach + 1, 10**9]),
                st.integers(both, both + 200_000),
            )
        )
    else:
        tol = draw(
            st.one_of(
                st.sampled_from([0, 1, 75_000] + around + [both, reach, reach + 1, span + 1, 10**9, 10**12]),
                st.integers(0, 100),
                st.integers(0, span + 10),
                st.integers(0, 200_000),
            )
        )
    via = draw(st.sampled_from(["func", "func", "manager"]))
    return {"frame": frame, "t0": t0, "frames": frames, "q": q, "tol": tol, "via": via}


def grid_cases(tier):
    pts = [0, 1, 2, 4, 7]
    o = lambda u, x: {"uuid": u, "p": [x, 1.0, 0.0], "yaw": 0.1 * x, "qs": 1, "size": [1.0, 2.0, 1.0], "label": "car", "vel": [1.0, 0.0, 0.0]}
    for r in range(1, len(pts) + 1):
        for sub in itertools.combinations(pts, r):
            frames = []
            prev = None
            for j, p in enumerate(sub):
                objs = [o("u0", float(p))] + ([o("u1", float(p) + 3.0)] if j % 2 == 0 else [])
                frames.append({"gap": 0 if prev is None else p - prev, "ego": [1.0 * p, 2.0, 0.25 * p], "objs": objs})
                prev = p
            for q in range(-2, 10):
                for tol in (0, 1, 2, 3, 10):
                    yield {"frame": "base_link", "t0": sub[0], "frames": frames, "q": q, "tol": tol, "via": "func"}


# ------------------------------------------------------------------------------------------------
# the system under test
# ------------------------------------------------------------------------------------------------

_MGR = None


def manager():
    """One real PerceptionEvaluationManager per process (config as in test/perception_lsim.py)."""
    global _MGR
    if _MGR is None:
        import os

        from perception_eval.config import PerceptionEvaluationConfig
        from perception_eval.manager import PerceptionEvaluationManager
        from vlib import boot

        cfg = {
            "evaluation_task": "detection",
            "target_labels": ["car", "bicycle", "pedestrian", "motorbike"],
            "max_x_position": 102.4,
            "max_y_position": 102.4,
            "center_distance_thresholds": [[1.0, 1.0, 1.0, 1.0]],
            "plane_distance_thresholds": [2.0],
            "iou_2d_thresholds": [0.5],
            "iou_3d_thresholds": [0.5],
            "min_point_numbers": [0, 0, 0, 0],
            "label_prefix": "autoware",
            "merge_similar_labels": False,
            "allow_matching_unknown": True,
        }
        config = PerceptionEvaluationConfig(
            dataset_paths=[os.path.join(boot.REPO, "perception_eval/test/sample_data")],
            frame_id="base_link",
            result_root_directory=proc_tmp(),
            evaluation_config_dict=cfg,
            load_raw_data=False,
        )
        with open(os.devnull, "w") as devnull, contextlib.redirect_stderr(devnull):  # tqdm bar of the loader
            _MGR = PerceptionEvaluationManager(evaluation_config=config)
    return _MGR


def _times(d):
    out, acc = [], D.T0 + d["t0"]
    for f in d["frames"]:
        acc += f["gap"]
        out.append(acc)
    return out


def _snap_frame(f):
    from perception_eval.common.schema import FrameID

    tr = f.transforms[(FrameID.BASE_LINK, FrameID.MAP)]
    return (
        f.unix_time,
        f.frame_name,
        id(f.objects),
        tuple(id(o) for o in f.objects),
        tuple(D.snapshot3d(o) + (None if o.state.velocity is None else tuple(o.state.velocity),) for o in f.objects),
        id(tr),
        tuple(tuple(float(v) for v in row) for row in tr.matrix),
        tuple(str(k) for k in f.transforms.keys()),
    )


def _fid(o):
    fid = o.frame_id
    return str(getattr(fid, "value", fid))


def _global_pose(ctx, o, out_frame, sig):
    """Pose of an output object in map coordinates (objects of an interpolated frame are in the map frame today;
    a base_link object is accepted and moved to the map with the output frame's own base_link->map transform)."""
    p = tuple(float(c) for c in o.state.position)
    qq = o.state.orientation
    q = (float(qq.w), float(qq.x), float(qq.y), float(qq.z))
    fid = _fid(o)
    if fid == "map":
        return p, q
    if fid == "base_link":
        from perception_eval.common.schema import FrameID

        m = [[float(v) for v in row] for row in out_frame.transforms[(FrameID.BASE_LINK, FrameID.MAP)].matrix]
        tf = R.tf_from_matrix(m)
        return G.tf_apply(tf, p), G.tf_apply_q(tf, q)
    ctx.violate(sig + "-frame-id", f"object {o.uuid} of the interpolated frame has frame_id {fid!r}")
    return None


def _check(ctx, d):
    from perception_eval.common.dataset import get_interpolated_now_frame, get_now_frame

    times = _times(d)
    t, tol, frame = D.T0 + d["q"], d["tol"], d["frame"]
    n = len(times)
    frames = [D.frame_gt(f["objs"], frame, f["ego"], times[i], str(i)) for i, f in enumerate(d["frames"])]
    ref_pose = [{o["uuid"]: D.render_pose(o, "map", f["ego"]) for o in f["objs"]} for f in d["frames"]]
    before = [_snap_frame(f) for f in frames]
    ids = [id(f) for f in frames]

    if d["via"] == "manager":
        mgr = manager()
        mgr.ground_truth_frames = frames
        lookup = lambda: mgr.get_ground_truth_now_frame(t, tol, False)  # noqa: E731
        lookup_i = lambda: mgr.get_ground_truth_now_frame(t, threshold_min_time=tol, interpolate_ground_truth=True)  # noqa: E731
    else:
        lookup = lambda: get_now_frame(frames, t, tol)  # noqa: E731
        lookup_i = lambda: get_interpolated_now_frame(frames, t, tol)  # noqa: E731

    # ---- classification -----------------------------------------------------------------------
    b, a = R.neighbours(times, t)
    qclass = "before_first" if b is None else ("after_last" if a is None else ("on" if times[b] == t else "between"))
    ctx.cls("q_" + qclass)
    ctx.cls("frame_" + frame)
    ctx.cls("via_" + d["via"])
    ctx.cls(f"n_frames_{'1' if n == 1 else '2-4' if n <= 4 else '5+'}")

    # ---- nearest lookup -----------------------------------------------------------------------
    allowed = R.nearest(times, t, tol)
    res = None
    with ctx.under_test("get_now_frame"):
        res = lookup()
    dmin = min(abs(t - x) for x in times)
    if len(allowed) > 1:
        ctx.cls("nearest_tie")
    if dmin == tol:
        ctx.cls("nearest_dt_eq_tol")
    ctx.cls("nearest_none" if not allowed else "nearest_frame")
    if not allowed:
        ctx.require(
            res is None,
            f"nearest-{qclass}-expected-none",
            lambda: f"nearest frame is {dmin} us away > tolerance {tol}, but a frame (t={getattr(res, 'unix_time', res)}) was returned",
        )
    else:
        ctx.require(
            res is not None,
            f"nearest-{qclass}-expected-frame",
            f"frame #{allowed[0]} is {dmin} us away <= tolerance {tol}, but nothing was returned",
        )
        if res is not None:
            ctx.require(
                any(res is frames[i] for i in allowed),
                f"nearest-{qclass}-wrong-frame",
                lambda: f"expected frame #{allowed} (|dt|={dmin}), got a frame with t-t_query={getattr(res, 'unix_time', 0) - t} "
                f"(index {ids.index(id(res)) if id(res) in ids else 'not an input frame'})",
            )

    # ---- interpolated lookup ------------------------------------------------------------------
    plan = R.plan(times, t, tol)
    out = None
    with ctx.under_test("get_interpolated_now_frame"):
        out = lookup_i()
    ctx.cls("plan_" + plan[0] + ("" if plan[0] != "frame" else ("_before" if plan[1] == b else "_after")))
    if b is not None and t - times[b] == tol or a is not None and times[a] - t == tol:
        ctx.cls("interp_dt_eq_tol")
    ctx.mark_nontrivial(qclass in ("before_first", "after_last"))

    if plan[0] == "none":
        ctx.require(
            out is None,
            f"interp-{qclass}-expected-none",
            lambda: f"no neighbour within {tol} us (before: {None if b is None else t - times[b]}, after: "
            f"{None if a is None else times[a] - t}) but got a frame t={getattr(out, 'unix_time', out)}",
        )
    elif plan[0] == "frame":
        i = plan[1]
        which = "before" if i == b else "after"
        ctx.require(
            out is not None,
            f"interp-{qclass}-expected-{which}-frame-got-none",
            f"only the {which} frame #{i} (dt={abs(t - times[i])}) is within {tol} us; nothing was returned",
        )
        if out is not None:
            ctx.require(
                out is frames[i],
                f"interp-{qclass}-expected-{which}-frame-got-other",
                lambda: f"only the {which} frame #{i} (dt={abs(t - times[i])}) is within {tol} us; got "
                + (f"input frame #{ids.index(id(out))}" if id(out) in ids else f"a new frame t={getattr(out, 'unix_time', None)}"),
            )
    else:
        _, ib, ia, alpha = plan
        ctx.require(
            out is not None,
            f"interp-{qclass}-expected-interpolation-got-none",
            f"frames #{ib} (dt={t - times[ib]}) and #{ia} (dt={times[ia] - t}) are both within {tol} us; nothing was returned",
        )
        if out is not None:
            _check_interpolated(ctx, d, out, frames, ids, ref_pose, ib, ia, alpha, t, qclass)

    # ---- inputs untouched ---------------------------------------------------------------------
    ctx.require([id(f) for f in frames] == ids and len(frames) == n, "frame-list-mutated", "the caller's frame list changed")
    after = [_snap_frame(f) for f in frames]
    for i in range(n):
        ctx.require(
            after[i] == before[i],
            "input-frame-mutated",
            lambda: f"frame #{i} changed: " + "; ".join(f"field {k}" for k in range(len(before[i])) if before[i][k] != after[i][k]),
        )


def _note_max(ctx, key, v):
    ctx.notes[key] = max(ctx.notes.get(key, 0.0), float(f"{v:.3e}"))


def _check_interpolated(ctx, d, out, frames, ids, ref_pose, ib, ia, alpha, t, qclass):
    from perception_eval.common.dataset import FrameGroundTruth

    sig = f"interp-{qclass}"
    ctx.require(isinstance(out, FrameGroundTruth), sig + "-type", f"{type(out)}")
    ctx.require(
        id(out) not in ids,
        sig + "-returned-input-frame",
        lambda: f"both neighbours (#{ib}, #{ia}) are within tolerance but input frame #{ids.index(id(out))} itself was returned",
    )
    if id(out) in ids:
        return
    ctx.require(
        out.unix_time == t and isinstance(out.unix_time, int),
        sig + "-stamp",
        lambda: f"interpolated frame stamped {out.unix_time!r}, query {t}",
    )
    expect = R.interpolate_objects(ref_pose[ib], ref_pose[ia], alpha)
    got = [o.uuid for o in out.objects]
    n_shared = sum(1 for v in expect.values() if v[0] == "shared")
    n_only = len(expect) - n_shared
    ctx.cls("interp_alpha0" if alpha == 0 else "interp_strict")
    if n_shared:
        ctx.cls("interp_has_shared")
    if n_only:
        ctx.cls("interp_has_unshared")
    if not expect:
        ctx.cls("interp_no_objects")
    ctx.mark_nontrivial(alpha != 0 and n_shared >= 1 and n_only >= 1)

    for u, (kind, p_ref, q_ref) in expect.items():
        c = got.count(u)
        ctx.require(
            c == 1,
            sig + ("-shared-object-count" if kind == "shared" else "-unshared-object-not-kept-once"),
            f"uuid {u} ({kind}) occurs {c} times in the interpolated frame (uuids out: {got})",
        )
    ctx.require(
        all(u in expect for u in got),
        sig + "-foreign-object",
        lambda: f"interpolated frame holds uuids {got}, neighbours hold {sorted(expect)}",
    )
    for o in out.objects:
        if o.uuid not in expect or got.count(o.uuid) != 1:
            continue
        kind, p_ref, q_ref = expect[o.uuid]
        pose = _global_pose(ctx, o, out, sig)
        if pose is None:
            continue
        p, q = pose
        tag = "shared" if kind == "shared" else "unshared"
        ctx.require(
            all(math.isfinite(c) for c in p + q),
            sig + f"-{tag}-nonfinite",
            f"uuid {o.uuid}: pose {p} {q}",
        )
        perr = R.pos_err(p, p_ref)
        _note_max(ctx, "max_position_error_over_tolerance(first shard)", perr / R.pos_tol(p_ref))
        ctx.require(
            perr <= R.pos_tol(p_ref),
            sig + f"-{tag}-position",
            lambda: f"uuid {o.uuid} ({kind}, alpha={float(alpha)!r}): position {p} vs reference {p_ref} in map coordinates "
            f"(off by {perr:.3e}; neighbours at {ref_pose[ib].get(o.uuid, (None,))[0]} and {ref_pose[ia].get(o.uuid, (None,))[0]})",
        )
        rot_tol = ROT_TOL
        if kind == "shared" and alpha != 0:
            qb, qa = ref_pose[ib][o.uuid][1], ref_pose[ia][o.uuid][1]
            dot = R.arc_dot(qb, qa)
            if dot < HALF_TURN_DOT:
                # the two poses are half a turn apart: both arcs are "shortest"; direction decided by rounding
                ctx.cls("half_turn_pair")
                ctx.boundary()
                continue
            ang = R.rot_angle(qb, qa)
            if ang < 0.07:
                ctx.cls("nearly_equal_orientations")
                rot_tol += 0.01 * ang**3
            if sum(x * y for x, y in zip(qb, qa)) < 0:
                ctx.cls("opposite_sign_quaternions")
        rerr = R.rot_angle(q, q_ref)
        _note_max(ctx, "max_orientation_error_over_tolerance(first shard)", rerr / rot_tol)
        if rot_tol == ROT_TOL:
            _note_max(ctx, "max_orientation_error_rad_where_tolerance_is_1e-9(first shard)", rerr)
        ctx.require(
            rerr <= rot_tol,
            sig + f"-{tag}-orientation",
            lambda: f"uuid {o.uuid} ({kind}, alpha={float(alpha)!r}): orientation {q} vs reference {q_ref} "
            f"(angle {rerr:.3e} rad > {rot_tol:.1e})",
        )


@CHECK.given("lookup", lambda tier: timelines(tier), quick=350, thorough=12000)
def lookup(ctx, d):
    _check(ctx, d)


@CHECK.given("interp", lambda tier: timelines(tier, focus=True), quick=300, thorough=12000)
def interp(ctx, d):
    _check(ctx, d)


@CHECK.enum("grid", grid_cases)
def grid(ctx, d):
    _check(ctx, d)


# ------------------------------------------------------------------------------------------------
# interpolated objects must BEHAVE like objects at the interpolated pose (footprint, corners, heading, distances, pair
# scores): the frame is built from deep copies of already-used objects whose state is reassigned, so anything an object
# memoises would be carried along (added after seeded changes cached footprint / heading on the object)
# ------------------------------------------------------------------------------------------------


@st.composite
def _derived_cases(draw, tier="quick"):
    n = draw(st.integers(1, 4))
    objs = []
    for i in range(n):
        objs.append(
            {
                "p0": [draw(GEN.fl(-30, 30)) + 0.37, draw(GEN.fl(-30, 30)) - 0.21, draw(GEN.fl(-1, 1))],
                "dp": [draw(GEN.fl(-4, 4)), draw(GEN.fl(-4, 4)), draw(GEN.fl(-0.2, 0.2))],
                "yaw0": draw(GEN.yaws()),
                "dyaw": draw(st.sampled_from([0.0, 0.3, -0.8, 2.0])),
                "size": draw(GEN.sizes()),
                "uuid": f"g{i}",
            }
        )
    return {
        "frame": draw(st.sampled_from(["base_link", "map"])),
        "ego0": draw(GEN.ego_poses(big=False)),
        "ego1": draw(GEN.ego_poses(big=False)),
        "objs": objs,
        "alpha_num": draw(st.integers(1, 9)),
    }


@CHECK.given("interpolated_objects_behave_as_fresh", lambda tier: _derived_cases(tier), quick=150, thorough=6000)
def interpolated_objects_behave_as_fresh(ctx, d):
    from perception_eval.common.dataset import get_interpolated_now_frame
    from perception_eval.common.object import DynamicObject
    from perception_eval.common.schema import FrameID
    from perception_eval.common.shape import Shape, ShapeType
    from perception_eval.evaluation.result.object_result import DynamicObjectWithPerceptionResult

    t0, t1 = D.T0, D.T0 + 100_000
    t = t0 + d["alpha_num"] * 10_000

    def descs(k):
        out = []
        for o in d["objs"]:
            p = [o["p0"][i] + k * o["dp"][i] for i in range(3)]
            yaw = math.atan2(math.sin(o["yaw0"] + k * o["dyaw"]), math.cos(o["yaw0"] + k * o["dyaw"]))
            out.append({"p": p, "yaw": yaw, "size": o["size"], "label": "car", "score": 1.0, "uuid": o["uuid"], "vel": [0.0, 0.0, 0.0]})
        return out

    f0 = D.frame_gt(descs(0), d["frame"], d["ego0"], t0, "0")
    f1 = D.frame_gt(descs(1), d["frame"], d["ego1"], t1, "1")
    # use the source objects first, as an evaluation of frame 0 / frame 1 would
    with ctx.under_test("first use of the source objects"):
        for f in (f0, f1):
            for o in f.objects:
                o.get_footprint()
                o.get_corners()
                o.get_heading_bev(f.transforms)
                o.get_distance_bev(f.transforms)
                DynamicObjectWithPerceptionResult(o, o, transforms=f.transforms)
    out = None
    with ctx.under_test("get_interpolated_now_frame"):
        out = get_interpolated_now_frame([f0, f1], t, 200_000)
    if out is None or out is f0 or out is f1:
        ctx.violate("derived:not-interpolated", f"query strictly between two frames within tolerance returned {out!r}")
        return
    ctx.mark_nontrivial(any(abs(o["dyaw"]) > 0 or max(abs(c) for c in o["dp"]) > 0.1 for o in d["objs"]))
    tr = out.transforms
    for o in out.objects:
        fresh = None
        with ctx.under_test("build a fresh object at the interpolated pose"):
            fid = o.frame_id if isinstance(o.frame_id, FrameID) else FrameID.from_value(str(o.frame_id))
            fresh = DynamicObject(
                unix_time=o.unix_time,
                frame_id=fid,
                position=tuple(float(c) for c in o.state.position),
                orientation=o.state.orientation,
                shape=Shape(ShapeType.BOUNDING_BOX, tuple(o.state.size)),
                velocity=o.state.velocity,
                semantic_score=o.semantic_score,
                semantic_label=o.semantic_label,
                uuid=o.uuid,
            )
        if fresh is None:
            continue
        with ctx.under_test("accessors of an interpolated object"):
            a = [tuple(c[:2]) for c in list(o.get_footprint().exterior.coords)[:4]]
            b = [tuple(c[:2]) for c in list(fresh.get_footprint().exterior.coords)[:4]]
            ok = all(math.dist(x, y) <= 1e-9 * (1 + abs(y[0]) + abs(y[1])) for x, y in zip(a, b))
            ctx.require(ok, "derived:footprint", lambda: f"interpolated object {o.uuid}: footprint {a} but an object at its pose {tuple(o.state.position)} has {b}")
            ca, cb = o.get_corners(), fresh.get_corners()
            ctx.require(abs(ca - cb).max() <= 1e-9 * (1 + abs(cb).max()), "derived:corners", lambda: f"interpolated object {o.uuid}: corners differ from a fresh object's by {abs(ca - cb).max()}")
            ha, hb = o.get_heading_bev(tr), fresh.get_heading_bev(tr)
            ctx.require(abs(math.remainder(ha - hb, 2 * math.pi)) <= 1e-9, "derived:heading", lambda: f"interpolated object {o.uuid}: heading {ha} vs fresh {hb}")
            da, db = o.get_distance_bev(tr), fresh.get_distance_bev(tr)
            ctx.require(abs(da - db) <= 1e-9 * (1 + db), "derived:distance", lambda: f"interpolated object {o.uuid}: distance {da} vs fresh {db}")
            ra = DynamicObjectWithPerceptionResult(fresh, o, transforms=tr)
            rb = DynamicObjectWithPerceptionResult(fresh, fresh, transforms=tr)
            for nm in ("center_distance", "plane_distance", "iou_2d", "iou_3d"):
                va, vb = getattr(ra, nm).value, getattr(rb, nm).value
                ctx.require(abs(va - vb) <= 1e-7, f"derived:score:{nm}", lambda: f"perfect estimate of interpolated object {o.uuid}: {nm} {va}, against a fresh object at the same pose {vb}")
