"""C16 — loading a T4/nuScenes dataset reproduces its annotations as ground-truth frames.

Domain: dataset descriptors (vlib/ref_t4.py) written to disk as the 13 nuScenes tables and loaded with
`load_all_datasets` for detection / tracking / sensing x base_link / map x merge_similar_labels on / off.
Oracle: the descriptor's own tables — frame count / order / time stamps, per frame the set of instance ids, per
object the golden label of its category, attribute names, size, lidar point count, Visibility member of its
level, pose (annotated global pose in `map`, that pose moved by the inverse ego pose computed with ref_geom in
`base_link`), the stored base_link->map transform, and for tracking the past poses of the instance.
"""
import contextlib
import io
import math
import os
import shutil

from hypothesis import strategies as st

from vlib import gen as GEN
from vlib import ref_geom as G
from vlib import ref_t4 as T
from vlib.harness import Check, proc_tmp

CHECK = Check(
    "C16",
    rule=(
        "datasets: Hypothesis descriptors of 1-6 samples (span < 3 s), 0-8 instances with presence patterns "
        "(always / appears / disappears / gap / random), global poses up to +-1e4 m with any yaw, both quaternion "
        "signs and optional small roll/pitch, an ego pose per sample, categories inside and outside the label table, "
        "attributes, visibility tables in every spelling (member values, vNN-MM aliases, unknown strings, crossed "
        "tokens, empty table), LIDAR_TOP / LIDAR_CONCAT at the ego origin, 0-3 extra camera/radar sensors with "
        "arbitrary calibration and their own ego poses, non-key-frame sweeps, three physical annotation orders; one "
        "(task, frame, merge) configuration per case. Enumerations: every visibility spelling, every golden category "
        "x merge, every sensor channel x task x frame. Non-trivial = >=2 samples and an instance that appears or "
        "disappears between samples and >=1 annotated instance of an unregistered category; distinct by descriptor hash."
    ),
    assumptions=[
        "lidar calibrated at the ego origin with identity rotation (stated precondition of the property)",
        "sample table order = time order = prev/next chain order; total span < 3 s and <= 6 samples (nuScenes' "
        "3 s / 6 record window of past annotations is not under test); one annotation per (sample, instance)",
        "position tolerance 1e-6*(1+|p|) per axis, orientations compared as rotations (q ~ -q) within 1e-7 rad, sizes 1e-9",
        "tracked_path: any order; in base_link the statement does not say in which frame past poses are expressed, so "
        "global poses, poses relative to the ego at that time and poses relative to the current ego are all accepted "
        "(consistently per object); in map they must be the annotated global poses",
        "empty visibility table: visibility None or Visibility.UNAVAILABLE accepted",
        "unknown visibility spellings exclude letter-case variants of member values (not pinned by the statement)",
    ],
    design_ref="§6 C16",
)

PI = math.pi

REGISTERED = [
    "vehicle.car",
    "car",
    "pedestrian.adult",
    "animal",
    "movable_object.barrier",
    "vehicle.truck",
    "vehicle.bus",
    "vehicle.motorcycle",
    "bicycle",
    "vehicle.trailer",
    "Vehicle.Car",
]
UNREGISTERED = ["spaceship", "human.pedestrian.adult", "vehicle.spaceship", "car.vehicle"]
ATTRS = ["vehicle.moving", "vehicle.parked", "pedestrian.standing", "cycle.with_rider", "occlusion_state.none", "custom attribute"]
VIS_MEMBER_VALUES = ["full", "most", "partial", "none"]
VIS_ALIASES = ["v80-100", "v60-80", "v40-60", "v0-40"]
VIS_UNKNOWN = ["", "invisible", "v0-100", "50%", "v40-80"]
VIS_ALL = VIS_MEMBER_VALUES + ["not available"] + VIS_ALIASES + VIS_UNKNOWN
VIS_TOKENS = ["full", "most", "partial", "none", "1", "2", "3", "4", "v0-40", "v80-100", "tokA", "tokB"]
EXTRA_CHANNELS = [
    ("CAM_FRONT", "camera"),
    ("CAM_BACK", "camera"),
    ("CAM_FRONT_LEFT", "camera"),
    ("CAM_BACK_RIGHT", "camera"),
    ("CAM_FRONT_LOWER", "camera"),
    ("RADAR_FRONT", "radar"),
    ("RADAR_FRONT_LEFT", "radar"),
    ("RADAR_BACK_RIGHT", "radar"),
]
ALL_CHANNELS = [
    ("RADAR_FRONT", "radar"),
    ("RADAR_FRONT_RIGHT", "radar"),
    ("RADAR_FRONT_LEFT", "radar"),
    ("RADAR_BACK", "radar"),
    ("RADAR_BACK_RIGHT", "radar"),
    ("RADAR_BACK_LEFT", "radar"),
    ("CAM_FRONT", "camera"),
    ("CAM_FRONT_RIGHT", "camera"),
    ("CAM_FRONT_LEFT", "camera"),
    ("CAM_FRONT_LOWER", "camera"),
    ("CAM_BACK", "camera"),
    ("CAM_BACK_LEFT", "camera"),
    ("CAM_BACK_RIGHT", "camera"),
    ("CAM_TRAFFIC_LIGHT_NEAR", "camera"),
    ("CAM_TRAFFIC_LIGHT_FAR", "camera"),
]
TASKS = ["detection", "tracking", "sensing"]
FRAMES = ["base_link", "map"]


# ------------------------------------------------------------------------------------------------
# strategies
# ------------------------------------------------------------------------------------------------


def _tilt():
    """(pitch, roll): mostly level, sometimes small."""
    small = st.tuples(GEN.fl(-0.1, 0.1), GEN.fl(-0.1, 0.1))
    return st.one_of(st.just((0.0, 0.0)), st.just((0.0, 0.0)), small)


@st.composite
def _pose(draw, centre, spread, zc=0.0):
    y = draw(GEN.yaws())
    p, r = draw(_tilt())
    return {
        "p": [centre[0] + draw(GEN.fl(-spread, spread)), centre[1] + draw(GEN.fl(-spread, spread)), zc + draw(GEN.fl(-3.0, 3.0))],
        "ypr": [y, p, r],
        "qs": draw(GEN.qsigns()),
    }


@st.composite
def _vis_table(draw):
    style = draw(st.sampled_from(["t4", "nusc", "values", "mixed", "mixed", "mixed", "empty"]))
    if style == "empty":
        return []
    if style == "t4":
        return [["none", "v0-40"], ["partial", "v40-60"], ["most", "v60-80"], ["full", "v80-100"]]
    if style == "nusc":
        return [["1", "v0-40"], ["2", "v40-60"], ["3", "v60-80"], ["4", "v80-100"]]
    if style == "values":
        toks = draw(st.permutations(VIS_MEMBER_VALUES))
        return [[t, lv] for t, lv in zip(toks, VIS_MEMBER_VALUES)]
    n = draw(st.integers(1, 6))
    levels = draw(st.lists(st.sampled_from(VIS_ALL), min_size=n, max_size=n))
    toks = draw(st.permutations(VIS_TOKENS))[:n]
    return [[t, lv] for t, lv in zip(toks, levels)]


@st.composite
def datasets(draw, tier="quick"):
    n = draw(GEN.counts(1, 6))
    # time stamps: strictly increasing, total span <= 5 * 580 ms = 2.9 s
    t0 = draw(st.sampled_from([1_600_000_000_000_000, 1_532_402_927_647_951, 1_000_000, 0])) + draw(st.integers(0, 10**6))
    ts = [t0]
    for _ in range(n - 1):
        ts.append(ts[-1] + draw(st.one_of(st.integers(1_000, 580_000), st.sampled_from([100_000, 500_000]))))
    far = draw(st.sampled_from([False, False, True]))
    R = 1e4 if far else 60.0
    ego0 = [draw(GEN.fl(-R, R)), draw(GEN.fl(-R, R))]

    cats_reg = draw(st.lists(st.sampled_from(REGISTERED), min_size=0, max_size=4, unique=True))
    cats_unreg = draw(st.lists(st.sampled_from(UNREGISTERED), min_size=0 if cats_reg else 1, max_size=2, unique=True))
    cats = draw(st.permutations(cats_reg + cats_unreg))
    attrs = draw(st.lists(st.sampled_from(ATTRS), min_size=0, max_size=4, unique=True))
    vis = draw(_vis_table())

    n_inst = draw(GEN.counts(0, 8 if tier == "quick" else 12))
    instances = [draw(st.integers(0, len(cats) - 1)) for _ in range(n_inst)]
    presence = []
    sizes = []
    bases = []
    for _ in range(n_inst):
        kind = draw(st.sampled_from(["always", "appear", "disappear", "gap", "random", "random"]))
        if n == 1 or kind == "always":
            pr = [True] * n
        elif kind == "appear":
            k = draw(st.integers(1, n - 1))
            pr = [i >= k for i in range(n)]
        elif kind == "disappear":
            k = draw(st.integers(1, n - 1))
            pr = [i < k for i in range(n)]
        elif kind == "gap" and n >= 3:
            a = draw(st.integers(1, n - 2))
            b = draw(st.integers(a, n - 2))
            pr = [not (a <= i <= b) for i in range(n)]
        else:
            pr = [draw(st.booleans()) for _ in range(n)]
            if not any(pr):
                pr[draw(st.integers(0, n - 1))] = True
        presence.append(pr)
        sizes.append(draw(GEN.sizes()))
        where = draw(st.sampled_from(["near", "near", "any"]))
        if where == "near":
            bases.append([ego0[0] + draw(GEN.fl(-100.0, 100.0)), ego0[1] + draw(GEN.fl(-100.0, 100.0))])
        else:
            bases.append([draw(GEN.fl(-1e4, 1e4)), draw(GEN.fl(-1e4, 1e4))])

    samples = []
    for i in range(n):
        ego = draw(_pose(ego0, 30.0))
        anns = []
        for j in range(n_inst):
            if not presence[j][i]:
                continue
            a = draw(_pose(bases[j], 30.0))
            a.update(
                {
                    "inst": j,
                    "size": sizes[j],
                    "pts": draw(st.integers(0, 200)),
                    "radar": draw(st.integers(0, 50)),
                    "vis": draw(st.integers(0, len(vis) - 1)) if vis else None,
                    "attrs": draw(st.lists(st.integers(0, len(attrs) - 1), max_size=2, unique=True)) if attrs else [],
                }
            )
            anns.append(a)
        if draw(st.booleans()):
            anns = list(draw(st.permutations(anns)))
        samples.append({"t": ts[i], "lidar_dt": draw(st.sampled_from([0, 0, 1, -3, 17_000])), "ego": ego, "anns": anns})

    # two scenes (1 in 4 when there are >= 2 samples): the instances of the second scene are separate instances, and the
    # first-listed scene may have been recorded LATER than the second (sample table not chronological)
    scene_cut = None
    if n >= 2 and draw(st.sampled_from([False, False, True])):
        scene_cut = draw(st.integers(1, n - 1))
        later_first = draw(st.sampled_from([True, True, False]))
        remap = {}
        for s_ in samples[scene_cut:]:
            for a in s_["anns"]:
                if a["inst"] not in remap:
                    remap[a["inst"]] = len(instances)
                    instances.append(instances[a["inst"]])
                a["inst"] = remap[a["inst"]]
        if later_first:
            tt = [s_["t"] for s_ in samples]
            tt = tt[n - scene_cut:] + tt[: n - scene_cut]
            for s_, t_ in zip(samples, tt):
                s_["t"] = t_

    n_sens = draw(st.sampled_from([0, 0, 1, 2, 3]))
    chans = draw(st.permutations(EXTRA_CHANNELS))[:n_sens]
    sensors = []
    for ch, mod in chans:
        sensors.append(
            {
                "channel": ch,
                "modality": mod,
                "p": [draw(GEN.fl(-5.0, 5.0)), draw(GEN.fl(-5.0, 5.0)), draw(GEN.fl(-1.0, 3.0))],
                "ypr": [draw(GEN.yaws()), draw(GEN.fl(-1.5, 1.5)), draw(GEN.fl(-PI + 1e-9, PI))],
                "qs": draw(GEN.qsigns()),
            }
        )
    return {
        "ds": {
            "lidar": draw(st.sampled_from(["LIDAR_TOP", "LIDAR_CONCAT"])),
            "lidar_qs": draw(GEN.qsigns()),
            "sensors": sensors,
            "categories": list(cats),
            "attributes": attrs,
            "vis": vis,
            "instances": instances,
            "samples": samples,
            "sweeps": draw(st.sampled_from([0, 0, 1, 2])),
            "ann_order": draw(st.sampled_from(["sample", "instance", "reverse"])),
            "sd_order": draw(st.sampled_from(["lidar_last", "lidar_first", "lidar_middle"])),
            "scene_cut": scene_cut,
        },
        "task": draw(st.sampled_from(TASKS)),
        "frame": draw(st.sampled_from(FRAMES)),
        "merge": draw(st.booleans()),
    }


def _tiny(category="vehicle.car", vis=None, sensors=(), lidar="LIDAR_TOP", second_cat="spaceship", vi=0):
    """A fixed two-sample dataset: instance 0 in both samples, instance 1 (second category) appears in the second."""
    vis = [["tokA", "v60-80"]] if vis is None else vis
    v = vi if vis else None

    def ann(inst, p, yaw, qs, pts):
        return {"inst": inst, "p": p, "ypr": [yaw, 0.0, 0.0], "qs": qs, "size": [1.9, 4.5, 1.6], "pts": pts, "radar": pts + 1, "vis": v, "attrs": [0]}

    return {
        "lidar": lidar,
        "lidar_qs": 1,
        "sensors": list(sensors),
        "categories": [category, second_cat],
        "attributes": ["vehicle.moving"],
        "vis": vis,
        "instances": [0, 1],
        "samples": [
            {
                "t": 1_600_000_000_000_000,
                "lidar_dt": 0,
                "ego": {"p": [100.0, -40.0, 1.0], "ypr": [0.7, 0.0, 0.0], "qs": 1},
                "anns": [ann(0, [112.0, -31.0, 1.5], 2.0, -1, 12)],
            },
            {
                "t": 1_600_000_000_400_000,
                "lidar_dt": 0,
                "ego": {"p": [103.0, -38.0, 1.1], "ypr": [0.9, 0.02, -0.01], "qs": -1},
                "anns": [ann(1, [90.0, -60.0, 0.4], -1.2, 1, 3), ann(0, [114.0, -30.0, 1.5], 2.1, 1, 10)],
            },
        ],
        "sweeps": 0,
        "ann_order": "sample",
    }


def _enum_visibility(tier):
    for lv in VIS_ALL:
        for task, frame in (("detection", "base_link"), ("tracking", "map")):
            # the token of the other record spells a different level than the one under test
            other = ["full", "v0-40"] if T.ref_visibility(lv) != "NONE" else ["full", "most"]
            yield {"ds": _tiny(vis=[other, ["none" if T.ref_visibility(lv) != "NONE" else "most", lv]], vi=1), "task": task, "frame": frame, "merge": False}
    yield {"ds": _tiny(vis=[]), "task": "detection", "frame": "base_link", "merge": False}
    yield {"ds": _tiny(vis=[]), "task": "tracking", "frame": "map", "merge": True}


def _enum_categories(tier):
    names = sorted(T.GOLDEN_LABEL) + UNREGISTERED + ["Vehicle.Car", "PEDESTRIAN.ADULT", "BUS"]
    for name in names:
        for merge in (False, True):
            yield {"ds": _tiny(category=name, second_cat="vehicle.bus" if name != "vehicle.bus" else "car"), "task": "detection", "frame": "map", "merge": merge}


def _enum_channels(tier):
    for k, (ch, mod) in enumerate(ALL_CHANNELS):
        sensor = {"channel": ch, "modality": mod, "p": [1.5 + 0.1 * k, -0.3, 1.2], "ypr": [0.4 * k - 2.5, 0.3, -1.0], "qs": -1 if k % 2 else 1}
        for lidar in ("LIDAR_TOP", "LIDAR_CONCAT"):
            for task, frame in (("detection", "base_link"), ("tracking", "map"), ("sensing", "base_link"), ("tracking", "base_link")):
                yield {"ds": _tiny(sensors=[sensor], lidar=lidar), "task": task, "frame": frame, "merge": False}


# ------------------------------------------------------------------------------------------------
# the oracle
# ------------------------------------------------------------------------------------------------


def _load(ctx, ds, task, frame, merge):
    from perception_eval.common.dataset import load_all_datasets
    from perception_eval.common.evaluation_task import EvaluationTask
    from perception_eval.common.label import LabelConverter
    from perception_eval.common.schema import FrameID

    root = os.path.join(proc_tmp(), "c16_dataset")
    if os.path.isdir(root):
        shutil.rmtree(root)
    frames = None
    try:
        T.write_dataset(ds, root)
        et = {"detection": EvaluationTask.DETECTION, "tracking": EvaluationTask.TRACKING, "sensing": EvaluationTask.SENSING}[task]
        fid = {"base_link": FrameID.BASE_LINK, "map": FrameID.MAP}[frame]
        with ctx.under_test("load_all_datasets"):
            with contextlib.redirect_stderr(io.StringIO()):  # tqdm progress bars
                conv = LabelConverter(et, merge, "autoware")
                frames = load_all_datasets([root], et, conv, fid)
    finally:
        shutil.rmtree(root, ignore_errors=True)
    return frames


def _fl(v):
    return [float(c) for c in v]


def _q(quat):
    return (float(quat.w), float(quat.x), float(quat.y), float(quat.z))


def _match_multiset(got, exp):
    """Every expected pose matched by a distinct observed pose (greedy; poses are far apart or equal)."""
    if len(got) != len(exp):
        return False
    free = list(range(len(got)))
    for e in exp:
        hit = None
        for k in free:
            if T.pose_close(got[k][0], got[k][1], e):
                hit = k
                break
        if hit is None:
            return False
        free.remove(hit)
    return True


def _classify(ctx, d):
    ds = d["ds"]
    S = ds["samples"]
    n = len(S)
    ctx.cls(f"task_{d['task']}")
    ctx.cls(f"frame_{d['frame']}")
    ctx.cls(f"merge_{d['merge']}")
    ctx.cls(f"samples_{n}")
    ctx.cls(f"lidar_{ds['lidar']}")
    ctx.cls(f"extra_sensors_{len(ds['sensors'])}")
    present = {}
    for i, s in enumerate(S):
        for a in s["anns"]:
            present.setdefault(a["inst"], set()).add(i)
    changing = any(len(v) < n for v in present.values())
    gap = any(len(v) < max(v) - min(v) + 1 for v in present.values())
    used_cats = {ds["categories"][ds["instances"][j]] for j in present}
    unreg = any(not T.is_registered(c) for c in used_cats)
    n_ann = sum(len(s["anns"]) for s in S)
    if n_ann == 0:
        ctx.cls("no_annotations")
    if any(not s["anns"] for s in S):
        ctx.cls("has_empty_sample")
    if changing:
        ctx.cls("instance_appears_or_disappears")
    if gap:
        ctx.cls("instance_with_gap")
    if unreg:
        ctx.cls("unregistered_category_used")
    if any(T.ref_label(c, False) != T.ref_label(c, True) for c in used_cats):
        ctx.cls("mergeable_category_used")
    if not ds["vis"]:
        ctx.cls("vis_table_empty")
    levels = {ds["vis"][a["vis"]][1] for s in S for a in s["anns"] if a["vis"] is not None}
    if levels & set(VIS_MEMBER_VALUES + ["not available"]):
        ctx.cls("vis_member_value_used")
    if levels & set(VIS_ALIASES):
        ctx.cls("vis_alias_used")
    if levels - set(T.GOLDEN_VIS):
        ctx.cls("vis_unknown_used")
    if any(a["ypr"][1] or a["ypr"][2] for s in S for a in s["anns"]):
        ctx.cls("annotation_tilted")
    if any(s["ego"]["ypr"][1] or s["ego"]["ypr"][2] for s in S):
        ctx.cls("ego_tilted")
    if any(abs(c) > 1000 for s in S for c in s["ego"]["p"][:2]):
        ctx.cls("far_coordinates")
    if any(a["qs"] < 0 for s in S for a in s["anns"]):
        ctx.cls("negative_quaternion_sign")
    if ds["sweeps"]:
        ctx.cls("with_sweeps")
    if ds.get("scene_cut"):
        ctx.cls("two_scenes")
        if any(S[i]["t"] > S[i + 1]["t"] for i in range(len(S) - 1)):
            ctx.cls("sample_table_not_chronological")
    if len(ds["sensors"]) > 0:
        ctx.cls("sample_data_" + ds.get("sd_order", "lidar_last"))
    if any(s["lidar_dt"] for s in S):
        ctx.cls("lidar_stamp_differs_from_sample")
    if d["task"] == "tracking" and any(len(v) >= 2 for v in present.values()):
        ctx.cls("tracking_with_past")
    ctx.mark_nontrivial(n >= 2 and changing and unreg)


def _check(ctx, d):
    from perception_eval.common.label import AutowareLabel
    from perception_eval.common.schema import FrameID, Visibility

    ds, task, frame, merge = d["ds"], d["task"], d["frame"], d["merge"]
    _classify(ctx, d)
    exp = T.expected_frames(ds, frame)
    frames = _load(ctx, ds, task, frame, merge)
    if frames is None:
        return
    want_fid = FrameID.MAP if frame == "map" else FrameID.BASE_LINK

    ctx.require(
        isinstance(frames, list) and len(frames) == len(exp),
        "frame-count",
        lambda: f"{len(exp)} samples but {len(frames) if isinstance(frames, list) else type(frames)} frames",
    )
    if not isinstance(frames, list) or len(frames) != len(exp):
        return
    ctx.require(
        [f.unix_time for f in frames] == [e["t"] for e in exp],
        "unix-time",
        lambda: f"frame times {[f.unix_time for f in frames]} != sample time stamps in table order {[e['t'] for e in exp]}",
    )

    for fi, (f, e) in enumerate(zip(frames, exp)):
        got_ids = sorted(str(o.uuid) for o in f.objects)
        exp_ids = sorted(o["uuid"] for o in e["objects"])
        ctx.require(
            got_ids == exp_ids,
            "object-ids",
            lambda: f"frame {fi}: object uuids {got_ids} != instance tokens of the sample's annotations {exp_ids}",
        )
        by_id = {}
        for o in f.objects:
            by_id.setdefault(str(o.uuid), o)

        # ---- the stored ego -> map transform -------------------------------------------------
        ego2map = None
        with ctx.under_test("transforms[(base_link,map)]"):
            ego2map = f.transforms[(FrameID.BASE_LINK, FrameID.MAP)]
        if ego2map is not None:
            M = [[float(v) for v in row] for row in ego2map.matrix.tolist()]
            Rm = G.q_to_matrix(e["ego"][1])
            tm = e["ego"][0]
            ok = all(abs(M[r][c] - Rm[r][c]) <= 1e-9 for r in range(3) for c in range(3))
            ok = ok and all(abs(M[r][3] - tm[r]) <= 1e-6 * (1 + abs(tm[r])) for r in range(3))
            ok = ok and all(abs(M[3][c] - (1.0 if c == 3 else 0.0)) <= 1e-12 for c in range(4))
            ctx.require(
                ok,
                "ego2map-matrix",
                lambda: f"frame {fi}: transforms[(base_link,map)] = {M} is not the sample's ego pose {e['ego']}",
            )

        for eo in e["objects"]:
            o = by_id.get(eo["uuid"])
            if o is None:
                continue
            tag = f"frame {fi} object {eo['uuid']} ({eo['category']})"

            # label / attributes
            want = AutowareLabel[T.ref_label(eo["category"], merge)]
            ctx.require(
                o.semantic_label.label is want,
                "label",
                lambda: f"{tag}: label {o.semantic_label.label!r}, expected {want!r} (merge={merge})",
            )
            ctx.require(
                sorted(o.semantic_label.attributes) == sorted(eo["attributes"]),
                "attributes",
                lambda: f"{tag}: attributes {o.semantic_label.attributes}, expected {eo['attributes']}",
            )
            # size / points
            size = _fl(o.state.size)
            ctx.require(
                len(size) == 3 and all(abs(a - b) <= 1e-9 for a, b in zip(size, eo["size"])),
                "size",
                lambda: f"{tag}: size {size}, annotated (w,l,h) {eo['size']}",
            )
            ctx.require(
                o.pointcloud_num == eo["pts"],
                "pointcloud-num",
                lambda: f"{tag}: pointcloud_num {o.pointcloud_num}, num_lidar_pts {eo['pts']}",
            )
            # visibility
            if eo["vis_level"] is None:
                ctx.require(
                    o.visibility is None or o.visibility is Visibility.UNAVAILABLE,
                    "visibility-without-table",
                    lambda: f"{tag}: visibility {o.visibility!r} although the dataset has no visibility table",
                )
            else:
                wantv = Visibility[T.ref_visibility(eo["vis_level"])]
                ctx.require(
                    isinstance(o.visibility, Visibility),
                    "visibility-not-a-member",
                    lambda: f"{tag}: level {eo['vis_level']!r} loaded as {o.visibility!r} ({type(o.visibility).__name__}), expected the member {wantv!r}",
                )
                if isinstance(o.visibility, Visibility):
                    ctx.require(
                        o.visibility is wantv,
                        "visibility-wrong-member",
                        lambda: f"{tag}: level {eo['vis_level']!r} loaded as {o.visibility!r}, expected {wantv!r}",
                    )
            # frame id + pose
            ctx.require(o.frame_id == want_fid and isinstance(o.frame_id, FrameID), "object-frame-id", lambda: f"{tag}: frame_id {o.frame_id!r}, requested {want_fid!r}")
            gp, gq = _fl(o.state.position), _q(o.state.orientation)
            ctx.require(
                len(gp) == 3 and T.pose_close(gp, gq, eo["pose"]),
                "pose-" + frame,
                lambda: f"{tag}: pose in {frame} ({gp}, {gq}), expected {eo['pose']} (annotated {eo['pose_map']}, ego {e['ego']})",
            )
            # the stored transform maps the ego-frame pose onto the map pose
            if ego2map is not None:
                res = None
                with ctx.under_test("HomogeneousMatrix.transform(position, rotation)"):
                    src_p, src_q = (gp, o.state.orientation) if frame == "base_link" else (list(eo["pose_ego"][0]), list(eo["pose_ego"][1]))
                    res = f.transforms.transform((FrameID.BASE_LINK, FrameID.MAP), src_p, src_q)
                if res is not None:
                    tp, tq = _fl(res[0]), _q(res[1])
                    ctx.require(
                        T.pose_close(tp, tq, eo["pose_map"]),
                        "ego2map-maps-pose",
                        lambda: f"{tag}: stored base_link->map transform sends the ego-frame pose to ({tp}, {tq}), annotated global pose {eo['pose_map']}",
                    )
            # tracking history
            if task == "tracking":
                path = o.tracked_path
                ctx.require(
                    path is not None and len(path) == len(eo["past"]),
                    "tracked-path-length",
                    lambda: f"{tag}: {None if path is None else len(path)} past states, the instance was annotated in {len(eo['past'])} preceding samples",
                )
                if path is not None and len(path) == len(eo["past"]) and path:
                    got = [(_fl(s.position), _q(s.orientation)) for s in path]
                    kinds = ["map"] if frame == "map" else ["map", "ego_then", "ego_now"]
                    ctx.require(
                        any(_match_multiset(got, [p[k] for p in eo["past"]]) for k in kinds),
                        "tracked-path-poses",
                        lambda: f"{tag}: past poses {got} are not the poses of the instance in the preceding samples {[p['map'] for p in eo['past']]}",
                    )


@CHECK.given("datasets", lambda tier: datasets(tier), quick=400, thorough=24000)
def datasets_sub(ctx, d):
    _check(ctx, d)


@CHECK.enum("visibility_spellings", _enum_visibility)
def visibility_spellings(ctx, d):
    _check(ctx, d)


@CHECK.enum("categories", _enum_categories)
def categories(ctx, d):
    _check(ctx, d)


@CHECK.enum("sensor_channels", _enum_channels)
def sensor_channels(ctx, d):
    _check(ctx, d)
