"""C09 — heading comparisons use the true minimal yaw difference."""
import math

from hypothesis import strategies as st

from vlib import desc as D
from vlib import gen as GEN
from vlib import ref_geom as G
from vlib.harness import Check

PI = math.pi

CHECK = Check(
    "C09",
    rule=(
        "pairs of orientations: yaw from a mixture of uniform (-pi, pi], special values {0, +-pi/2, pi, +-pi -+ 1e-3, "
        "+-1e-3} and 'partner +- small'; both quaternion signs independently; optional small roll/pitch (<=0.1 rad); "
        "evaluated in the ego frame and in the map frame (pair rotated by a common ego yaw, translated up to 1e5 m); "
        "plus the exhaustive grid of yaw multiples of pi/12 (quick: pi/6) x quaternion signs. Non-trivial = both yaws non-zero with "
        "different signs or different quaternion signs, and d not in {0, pi}; distinct by descriptor hash."
    ),
    assumptions=[
        "reference yaw = atan2(R10, R00) of the rotation matrix (heading of the object's x axis projected on the ground)",
        "tolerance 1e-9 on weights and angles; with roll/pitch (r, p) the yaw of an orientation is convention dependent, "
        "so 1.5*(r^2 + p^2) per object is added to the angle tolerance",
    ],
    design_ref="§6 C09",
)

TOL = 1e-9


def _obj(yaw, qs, pr, label="car", origin=False, wide=False):
    # origin=True: the object sits exactly on the origin of the frame it is expressed in (e.g. the map origin)
    # wide=True: a box that is wider than long (heading is the orientation's, whatever the box proportions)
    return {"p": [0.0, 0.0, 0.0] if origin else [3.0, -2.0, 0.5], "yaw": yaw, "qs": qs, "pr": pr, "size": [4.0, 2.0, 1.5] if wide else [2.0, 4.0, 1.5], "label": label, "score": 0.7}


@st.composite
def pairs(draw, tier="quick"):
    ye = draw(GEN.yaws())
    kind = draw(st.sampled_from(["indep", "indep", "small", "opposite", "mirror", "equal"]))
    if kind == "indep":
        yg = draw(GEN.yaws())
    elif kind == "small":
        yg = ye + draw(GEN.fl(-0.2, 0.2))
    elif kind == "opposite":
        yg = ye + PI + draw(st.sampled_from([0.0, 1e-6, -1e-6, 0.05]))
    elif kind == "mirror":
        yg = -ye
    else:
        yg = ye
    yg = math.atan2(math.sin(yg), math.cos(yg)) if kind not in ("equal", "mirror", "indep") else yg
    rp = draw(st.sampled_from([None, None, None, "rp"]))
    pre = [draw(GEN.fl(-0.1, 0.1)), draw(GEN.fl(-0.1, 0.1))] if rp else [0.0, 0.0]
    prg = [draw(GEN.fl(-0.1, 0.1)), draw(GEN.fl(-0.1, 0.1))] if rp else [0.0, 0.0]
    ego = draw(GEN.ego_poses())
    origin = draw(st.integers(0, 5)) == 0
    if origin:
        ego = [0.0, 0.0, ego[2]]  # ego on the map origin (any yaw): the objects then sit exactly on the map origin, too
    return {"kind": kind, "ye": ye, "yg": yg, "qse": draw(GEN.qsigns()), "qsg": draw(GEN.qsigns()), "pre": pre, "prg": prg, "ego": ego, "origin": origin, "wide": draw(st.sampled_from([[False, False], [False, False], [True, False], [False, True], [True, True]]))}


def gen_grid(tier):
    n = 12 if tier == "thorough" else 6  # multiples of pi/12 (thorough) or pi/6 (quick)
    for i in range(-n + 1, n + 1):
        for j in range(-n + 1, n + 1):
            for qse in (1, -1):
                for qsg in (1, -1):
                    yield {"kind": "grid", "ye": i * PI / n, "yg": j * PI / n, "qse": qse, "qsg": qsg, "pre": [0.0, 0.0], "prg": [0.0, 0.0], "ego": [12.0, -7.0, (i + 2 * j) * PI / n + 0.3]}


def _weight(ctx, e, g, what, tr=None):
    from perception_eval.evaluation.metrics.detection.tp_metrics import TPMetricsAph
    from perception_eval.evaluation.result.object_result import DynamicObjectWithPerceptionResult

    out = None
    with ctx.under_test(what):
        r = DynamicObjectWithPerceptionResult(e, g, transforms=tr)
        out = (float(TPMetricsAph().get_value(r)), r.heading_error)
    return out


def _body(ctx, d):
    wd = d.get("wide") or [False, False]
    eo, go = _obj(d["ye"], d["qse"], d["pre"], origin=bool(d.get("origin")), wide=wd[0]), _obj(d["yg"], d["qsg"], d["prg"], origin=bool(d.get("origin")), wide=wd[1])
    if wd[0] != wd[1]:
        ctx.cls("one_box_wider_than_long")
    if d.get("origin"):
        ctx.cls("objects_on_frame_origin")
    # reference: yaw of each physical orientation, minimal absolute difference
    y_e, y_g = G.yaw_of(D.obj_quat(eo)), G.yaw_of(D.obj_quat(go))
    dref = G.absdiff_angle(y_e, y_g)
    wref = 1.0 - dref / PI
    # With roll/pitch the yaw of an orientation depends on the Euler convention (pyquaternion's yaw_pitch_roll differs
    # from the ground-plane heading by O(roll^2 + pitch^2): it decomposes R = Rx Ry Rz); the property does not pin the convention, so allow that much.
    atol = TOL + 1.5 * (d["pre"][0] ** 2 + d["pre"][1] ** 2 + d["prg"][0] ** 2 + d["prg"][1] ** 2)
    wtol = atol / PI + TOL
    ctx.cls("kind_" + d["kind"])
    if d["pre"] != [0.0, 0.0] or d["prg"] != [0.0, 0.0]:
        ctx.cls("roll_pitch")
    diff_sign = (d["ye"] * d["yg"] < 0) or (d["qse"] != d["qsg"])
    ctx.mark_nontrivial(d["ye"] != 0 and d["yg"] != 0 and diff_sign and 1e-6 < dref < PI - 1e-6)
    if d["ye"] * d["yg"] < 0:
        ctx.cls("yaw_signs_differ")
    if d["qse"] != d["qsg"]:
        ctx.cls("quat_signs_differ")

    res = _weight(ctx, D.obj3d(eo), D.obj3d(go), "TPMetricsAph.get_value(ego frame)")
    if res is None:
        return
    w, herr = res
    ctx.require(abs(w - wref) <= wtol, "aph-weight-ego", lambda: f"APH weight {w} for yaw {d['ye']} vs {d['yg']} (q signs {d['qse']},{d['qsg']}); 1 - d/pi = {wref} (d = {dref})")
    ctx.require(-1e-12 <= w <= 1 + 1e-12, "aph-weight-bounds", lambda: f"{w}")
    # yaw error
    ctx.require(herr is not None and len(herr) == 3, "heading-error-shape", f"{herr}")
    if herr is not None:
        ez = float(herr[2])
        ctx.require(-PI - 1e-12 <= ez <= PI + 1e-12, "yaw-error-range", lambda: f"yaw error {ez} outside [-pi, pi] for yaw {d['ye']} vs {d['yg']}")
        ctx.require(abs(abs(ez) - dref) <= atol, "yaw-error-magnitude", lambda: f"|yaw error| = {abs(ez)} but minimal yaw difference is {dref} (yaw {d['ye']} vs {d['yg']})")
    # symmetry
    res2 = _weight(ctx, D.obj3d(go), D.obj3d(eo), "TPMetricsAph.get_value(swapped)")
    if res2 is not None:
        ctx.require(abs(res2[0] - w) <= TOL, "aph-weight-asymmetric", lambda: f"{w} vs swapped {res2[0]}")
        if res2[1] is not None and herr is not None:
            ctx.require(abs(abs(float(res2[1][2])) - abs(float(herr[2]))) <= TOL, "yaw-error-asymmetric", lambda: f"{herr[2]} vs swapped {res2[1][2]}")
    # quaternion sign convention
    for fe, fg in ((-1, 1), (1, -1), (-1, -1)):
        r3 = _weight(ctx, D.obj3d(dict(eo, qs=fe * d["qse"])), D.obj3d(dict(go, qs=fg * d["qsg"])), "TPMetricsAph.get_value(q -> -q)")
        if r3 is not None:
            ctx.require(abs(r3[0] - w) <= TOL, "aph-weight-quaternion-sign", lambda: f"weight {w} becomes {r3[0]} after negating a quaternion")
            if r3[1] is not None and herr is not None:
                ctx.require(abs(abs(float(r3[1][2])) - dref) <= atol, "yaw-error-quaternion-sign", lambda: f"{r3[1][2]} vs d {dref}")
    # frame independence: same pair expressed in the map frame
    ego = d["ego"]
    r4 = _weight(ctx, D.obj3d(eo, "map", ego), D.obj3d(go, "map", ego), "TPMetricsAph.get_value(map frame)", tr=D.transforms(ego))
    if r4 is not None:
        ctx.require(abs(r4[0] - wref) <= wtol, "aph-weight-map", lambda: f"map-frame APH weight {r4[0]} vs {wref} (ego pose {ego})")
        if r4[1] is not None:
            ctx.require(abs(abs(float(r4[1][2])) - dref) <= atol, "yaw-error-map", lambda: f"map-frame yaw error {r4[1][2]} vs d {dref}")
    # fixed points
    if d["kind"] == "equal" and d["pre"] == d["prg"]:
        ctx.require(abs(w - 1) <= TOL, "equal-headings", lambda: f"equal headings give weight {w}")


@CHECK.given("pairs", lambda tier: pairs(tier), quick=500, thorough=320000)
def pairs_body(ctx, d):
    _body(ctx, d)


@CHECK.enum("grid", gen_grid)
def grid(ctx, d):
    _body(ctx, d)


# ------------------------------------------------------------------------------------------------
# re-oriented copies (deepcopy + state reassignment, as frame interpolation does) and objects that were already used
# with other transforms: the weight must depend on the current physical orientations only
# (added after a seeded change memoised the heading on the object)
# ------------------------------------------------------------------------------------------------


@CHECK.given("reposed_copies", lambda tier: pairs(tier), quick=250, thorough=30000)
def reposed_copies(ctx, d):
    import copy

    from pyquaternion import Quaternion

    eo, go = _obj(d["ye"], d["qse"], [0.0, 0.0]), _obj(d["yg"], d["qsg"], [0.0, 0.0])
    e, g = D.obj3d(eo), D.obj3d(go)
    first = _weight(ctx, e, g, "TPMetricsAph.get_value(first use)")
    if first is None:
        return
    ctx.mark_nontrivial(abs(math.remainder(d["ye"] - d["yg"], 2 * PI)) > 1e-3)
    # estimate re-oriented to the ground truth's yaw + offset
    for off in (0.0, PI / 2, -2.5):
        y2 = math.atan2(math.sin(d["yg"] + off), math.cos(d["yg"] + off))
        e2 = copy.deepcopy(e)
        q = G.q_from_yaw(y2, d["qse"])
        with ctx.under_test("re-orient a deep copy"):
            e2.state.orientation = Quaternion(q[0], q[1], q[2], q[3])
        r = _weight(ctx, e2, g, "TPMetricsAph.get_value(re-oriented copy)")
        if r is None:
            continue
        wref = 1.0 - G.absdiff_angle(y2, G.yaw_of(D.obj_quat(go))) / PI
        ctx.require(abs(r[0] - wref) <= TOL, "reposed:aph-weight", lambda: f"estimate re-oriented to yaw {y2}: weight {r[0]} vs {wref} (weight before the change: {first[0]})")
        if r[1] is not None:
            ctx.require(abs(abs(float(r[1][2])) - G.absdiff_angle(y2, d["yg"])) <= TOL, "reposed:yaw-error", lambda: f"yaw error {r[1][2]} after re-orientation to {y2} (GT yaw {d['yg']})")
    # the same map-frame objects queried with the frame's real transforms first, then scored
    ego = d["ego"]
    em, gm = D.obj3d(eo, "map", ego), D.obj3d(go, "map", ego)
    tr = D.transforms(ego)
    with ctx.under_test("get_heading_bev(transforms)"):
        em.get_heading_bev(tr)
    r2 = _weight(ctx, em, gm, "TPMetricsAph.get_value(map frame, after a heading query)", tr=tr)
    if r2 is not None:
        wref = 1.0 - G.absdiff_angle(d["ye"], d["yg"]) / PI
        ctx.require(abs(r2[0] - wref) <= TOL, "reposed:aph-weight-after-heading-query", lambda: f"map-frame weight {r2[0]} vs {wref} after get_heading_bev(transforms) was called on the estimate only (ego yaw {ego[2]})")


# ------------------------------------------------------------------------------------------------
# the weight a TP receives IN APH (observable: Ap.tp_list with TPMetricsAph): several matched pairs with different
# heading differences and distinct confidences, handed over in arbitrary order, ego or map frame
# ------------------------------------------------------------------------------------------------


@st.composite
def aph_rankings(draw, tier="quick"):
    n = draw(st.integers(2, 6))
    prs = []
    for k in range(n):
        ye = draw(GEN.yaws())
        yg = draw(st.one_of(GEN.yaws(), st.just(ye), st.sampled_from([ye + PI / 2, ye + PI, ye - 0.3])))
        prs.append(
            {
                "ye": ye,
                "yg": yg,
                "qse": draw(GEN.qsigns()),
                "qsg": draw(GEN.qsigns()),
                "conf": round(0.05 + 0.9 * (k + 1) / (n + 1), 6),
                # a pair whose ground truth carries another label than the Ap's (reached under ALLOW_ANY): it takes a
                # rank but is neither TP nor FP for this label
                "other": draw(st.integers(0, 4)) == 0,
            }
        )
    order = draw(st.permutations(list(range(n))))
    return {"pairs": prs, "order": list(order), "frame": draw(st.sampled_from(["base_link", "map"])), "ego": draw(GEN.ego_poses()), "nested": draw(st.booleans())}


@CHECK.given("aph_rankings", lambda tier: aph_rankings(tier), quick=200, thorough=20000)
def aph_rankings_body(ctx, d):
    from perception_eval.evaluation.matching.object_matching import MatchingMode
    from perception_eval.evaluation.metrics.detection.ap import Ap
    from perception_eval.evaluation.metrics.detection.tp_metrics import TPMetricsAph
    from perception_eval.evaluation.result.object_result import DynamicObjectWithPerceptionResult

    frame, ego = d["frame"], d["ego"]
    tr = D.transforms(ego) if frame == "map" else None
    results, wref = [], []
    for k, p in enumerate(d["pairs"]):
        eo = dict(_obj(p["ye"], p["qse"], [0.0, 0.0]), p=[5.0 * k, 2.0, 0.0], score=p["conf"], uuid=f"e{k}")
        go = dict(_obj(p["yg"], p["qsg"], [0.0, 0.0], label="pedestrian" if p.get("other") else "car"), p=[5.0 * k + 0.1, 2.0, 0.0], uuid=f"g{k}")
        r = None
        with ctx.under_test("DynamicObjectWithPerceptionResult"):
            if p.get("other"):
                from perception_eval.evaluation.matching.object_matching import MatchingLabelPolicy

                r = DynamicObjectWithPerceptionResult(D.obj3d(eo, frame, ego), D.obj3d(go, frame, ego), MatchingLabelPolicy.ALLOW_ANY, transforms=tr)
            else:
                r = DynamicObjectWithPerceptionResult(D.obj3d(eo, frame, ego), D.obj3d(go, frame, ego), transforms=tr)
        if r is None:
            return
        results.append(r)
        wref.append(0.0 if p.get("other") else 1.0 - G.absdiff_angle(p["ye"], p["yg"]) / PI)
    fed = [results[k] for k in d["order"]]
    arg = [fed[: len(fed) // 2], fed[len(fed) // 2 :]] if d["nested"] else fed
    ap = None
    with ctx.under_test("Ap(TPMetricsAph)"):
        ap = Ap(
            tp_metrics=TPMetricsAph(),
            object_results=arg,
            num_ground_truth=sum(1 for p in d["pairs"] if not p.get("other")),
            target_labels=[D.label_type("car")],
            matching_mode=MatchingMode.CENTERDISTANCE,
            matching_threshold_list=[1.0],
        )
    if ap is None:
        return
    by_conf = sorted(range(len(results)), key=lambda k: -d["pairs"][k]["conf"])
    exp, acc = [], 0.0
    for k in by_conf:
        acc += wref[k]
        exp.append(acc)
    got = [float(v) for v in ap.tp_list]
    ctx.cls("frame_" + frame)
    ctx.cls("nested" if d["nested"] else "flat")
    if any(p.get("other") for p in d["pairs"]):
        ctx.cls("with_result_of_another_label")
    ws = sorted(wref)
    ctx.mark_nontrivial(d["order"] != by_conf and ws[-1] - ws[0] > 0.05)
    ctx.require(
        len(got) == len(exp) and all(abs(a - b) <= 1e-9 for a, b in zip(got, exp)),
        "aph-tp-list",
        lambda: f"Ap.tp_list with TPMetricsAph {got}; cumulative 1 - d/pi of the TPs in descending confidence {exp} (weights by confidence rank {[wref[k] for k in by_conf]}, fed in order {d['order']}, {frame} frame)",
    )
    ctx.require(all(float(v) == 0.0 for v in ap.fp_list), "aph-fp-list", lambda: f"all pairs are TPs but fp_list = {list(ap.fp_list)}")
