#!/venv/bin/python
"""run.py <ID> [--tier quick|thorough] [--replay FILE] [--only SUBCHECK]

Exit 0: property held on everything explored (KNOWN-FINDING lines possible);
exit 1: `VIOLATION property=<ID> replay=<path>`; exit 2: harness error (no verdict).
"""
import os
import sys

ROOT = os.path.dirname(os.path.abspath(__file__))


def main():
    if len(sys.argv) < 2:
        print(__doc__)
        return 2
    if os.environ.get("PYTHONHASHSEED") != "0" or os.environ.get("OPENBLAS_NUM_THREADS") != "1":
        # single-threaded BLAS: the library only does 3x3 / 4x4 algebra and OpenBLAS worker threads spinning on that
        # cost more system time than the computation itself (and we shard over processes anyway)
        env = dict(os.environ, PYTHONHASHSEED="0", OPENBLAS_NUM_THREADS="1", OMP_NUM_THREADS="1", MKL_NUM_THREADS="1")
        os.execve(sys.executable, [sys.executable, os.path.abspath(__file__)] + sys.argv[1:], env)
    sys.path.insert(0, ROOT)
    from vlib import boot

    boot.boot()
    from vlib import harness

    pid = sys.argv[1].upper()
    return harness.main(f"checks.{pid.lower()}", sys.argv[2:])


if __name__ == "__main__":
    sys.exit(main())
